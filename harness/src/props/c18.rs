//! C18 – the standard library's Map, Set and List behave like finite maps, sets and sequences.
//! Generated operation histories are rendered as a driver program that prints every result; the
//! expected lines come from BTreeMap / BTreeSet / Vec. The driver is executed by the reference
//! interpreter (std sources interpreted by the spec semantics) and as compiled WebAssembly.

use super::run_common::*;
use crate::engine::{Outcome, Params, Prop, Tape, Tier, fnv};
use crate::model::interp::End;
use serde_json::{Value, json};
use std::collections::{BTreeMap, BTreeSet};

pub struct C18;

#[derive(Clone, Debug)]
enum Val {
  M(BTreeMap<i32, i32>),
  S(BTreeSet<i32>),
  L(Vec<i32>),
}

struct St {
  vars: Vec<Val>,
  code: Vec<String>,
  expect: Vec<String>,
  /// name of the operation of every history index
  names: Vec<String>,
  /// some 32-bit operation of the history overflows (unspecified behaviour: the history is discarded)
  overflow: bool,
}

fn gi(o: &Value, k: &str) -> i64 {
  o[k].as_i64().unwrap_or(0)
}

fn lit(k: i32) -> String {
  // MIN_INT cannot be written as a literal after a minus sign in every position; keys never reach it
  k.to_string()
}

fn boxed(k: i32) -> String {
  format!("Int.init({})", lit(k))
}

fn pred_map(f: i64, c: i32) -> (String, Box<dyn Fn(i32, i32) -> bool>) {
  match f.rem_euclid(3) {
    0 => {
      let m = 2 + c.rem_euclid(3);
      (format!("(k, v) -> k.value % {m} == 0"), Box::new(move |k, _| k % m == 0))
    }
    1 => (format!("(k, v) -> {} > k.value", lit(c)), Box::new(move |k, _| k < c)),
    _ => (format!("(k, v) -> v > {}", lit(c)), Box::new(move |_, v| v > c)),
  }
}

fn pred_elem(f: i64, c: i32, boxed: bool) -> (String, Box<dyn Fn(i32) -> bool>) {
  let e = if boxed { "e.value" } else { "e" };
  match f.rem_euclid(3) {
    0 => {
      let m = 2 + c.rem_euclid(3);
      (format!("(e) -> {e} % {m} == 0"), Box::new(move |k| k % m == 0))
    }
    1 => (format!("(e) -> {} > {e}", lit(c)), Box::new(move |k| k < c)),
    _ => (format!("(e) -> {e} > {}", lit(c)), Box::new(move |k| k > c)),
  }
}

fn show_map(m: &BTreeMap<i32, i32>) -> String {
  let mut s = String::from("M:");
  for (k, v) in m {
    s.push_str(&format!("{k}={v};"));
  }
  s
}
fn show_set(m: &BTreeSet<i32>) -> String {
  let mut s = String::from("S:");
  for k in m {
    s.push_str(&format!("{k};"));
  }
  s
}
fn show_list(m: &[i32]) -> String {
  let mut s = String::from("L:");
  for k in m {
    s.push_str(&format!("{k};"));
  }
  s
}

impl St {
  fn m(&self, o: &Value, k: &str) -> Option<(usize, &BTreeMap<i32, i32>)> {
    let i = gi(o, k) as usize;
    match self.vars.get(i) {
      Some(Val::M(m)) => Some((i, m)),
      _ => None,
    }
  }
  fn s(&self, o: &Value, k: &str) -> Option<(usize, &BTreeSet<i32>)> {
    let i = gi(o, k) as usize;
    match self.vars.get(i) {
      Some(Val::S(m)) => Some((i, m)),
      _ => None,
    }
  }
  fn l(&self, o: &Value, k: &str) -> Option<(usize, &Vec<i32>)> {
    let i = gi(o, k) as usize;
    match self.vars.get(i) {
      Some(Val::L(m)) => Some((i, m)),
      _ => None,
    }
  }
  fn new_var(&mut self, v: Val) -> usize {
    self.vars.push(v);
    self.vars.len() - 1
  }
  /// `let x<n> = <expr>;` plus a dump line
  fn bind(&mut self, i: usize, v: Val, expr: String) {
    let shown = match &v {
      Val::M(m) => show_map(m),
      Val::S(m) => show_set(m),
      Val::L(m) => show_list(m),
    };
    let f = match &v {
      Val::M(_) => "sm",
      Val::S(_) => "ss",
      Val::L(_) => "sl",
    };
    let n = self.new_var(v);
    self.code.push(format!("let x{n} = {expr};"));
    self.print(i, &format!("Main.{f}(x{n})"), shown);
  }
  fn dump_existing(&mut self, i: usize, n: usize) {
    let (f, shown) = match &self.vars[n] {
      Val::M(m) => ("sm", show_map(m)),
      Val::S(m) => ("ss", show_set(m)),
      Val::L(m) => ("sl", show_list(m)),
    };
    self.print(i, &format!("Main.{f}(x{n})"), shown);
  }
  fn print(&mut self, i: usize, expr: &str, expected: String) {
    self.code.push(format!("let _ = Process.println(\"{i}|\" :: {expr});"));
    self.expect.push(format!("{i}|{expected}"));
  }

  fn step(&mut self, i: usize, o: &Value) {
    let name = o["op"].as_str().unwrap_or("").to_string();
    self.names.push(name.clone());
    let k = gi(o, "k") as i32;
    let v = gi(o, "v") as i32;
    let c = gi(o, "c") as i32;
    // additive constants stay small
    let sc = c % 100;
    let f = gi(o, "f");
    let ovf = std::cell::Cell::new(false);
    let add = |a: i32, b: i32| -> i32 {
      a.checked_add(b).unwrap_or_else(|| {
        ovf.set(true);
        0
      })
    };
    let opt_i = |x: Option<i32>| x.map(|v| format!("Some {v}")).unwrap_or("None".into());
    let b = |x: bool| if x { "true".to_string() } else { "false".to_string() };
    match name.as_str() {
      // ------------------------------------------------------------------ Map
      "map.empty" => self.bind(i, Val::M(BTreeMap::new()), "Map.empty<Int, int>()".into()),
      "map.singleton" => self.bind(i, Val::M(BTreeMap::from([(k, v)])), format!("Map.singleton({}, {})", boxed(k), lit(v))),
      "map.insert" => {
        let Some((a, m)) = self.m(o, "a") else { return };
        let mut m = m.clone();
        m.insert(k, v);
        self.bind(i, Val::M(m), format!("x{a}.insert({}, {})", boxed(k), lit(v)));
      }
      "map.bulk" => {
        let Some((a, m)) = self.m(o, "a") else { return };
        let mut m = m.clone();
        let mut e = format!("x{a}");
        for kv in o["kvs"].as_array().cloned().unwrap_or_default() {
          let (k, v) = (kv[0].as_i64().unwrap_or(0) as i32, kv[1].as_i64().unwrap_or(0) as i32);
          m.insert(k, v);
          e.push_str(&format!(".insert({}, {})", boxed(k), lit(v)));
        }
        self.bind(i, Val::M(m), e);
      }
      "map.remove" => {
        let Some((a, m)) = self.m(o, "a") else { return };
        let mut m = m.clone();
        m.remove(&k);
        self.bind(i, Val::M(m), format!("x{a}.remove({})", boxed(k)));
      }
      "map.get" => {
        let Some((a, m)) = self.m(o, "a") else { return };
        let e = opt_i(m.get(&k).copied());
        let e2 = b(m.contains_key(&k));
        self.print(i, &format!("Main.oi(x{a}.get({}))", boxed(k)), e);
        self.print(i, &format!("Main.sb(x{a}.containsKey({}))", boxed(k)), e2);
      }
      "map.update" => {
        let Some((a, m)) = self.m(o, "a") else { return };
        let mut m = m.clone();
        let old = m.get(&k).copied();
        let (lam, new): (String, Option<i32>) = match f.rem_euclid(4) {
          0 => (format!("(o) -> match o {{ Some(x) -> Option.Some(x + {}), None -> Option.None() }}", lit(sc)), old.map(|x| add(x, sc))),
          1 => (format!("(o) -> Option.Some({})", lit(c)), Some(c)),
          2 => ("(o) -> Option.None()".to_string(), None),
          _ => (format!("(o) -> match o {{ Some(_) -> Option.None(), None -> Option.Some({}) }}", lit(c)), if old.is_some() { None } else { Some(c) }),
        };
        match new {
          Some(x) => {
            m.insert(k, x);
          }
          None => {
            m.remove(&k);
          }
        }
        self.bind(i, Val::M(m), format!("x{a}.update({}, {lam})", boxed(k)));
      }
      "map.union" => {
        let (Some((a, m1)), Some((bb, m2))) = (self.m(o, "a"), self.m(o, "b")) else { return };
        // left-biased: the receiver's value wins
        let mut m = m2.clone();
        for (k, v) in m1 {
          m.insert(*k, *v);
        }
        self.bind(i, Val::M(m), format!("x{a}.union(x{bb})"));
      }
      "map.unionWith" => {
        let (Some((a, m1)), Some((bb, m2))) = (self.m(o, "a"), self.m(o, "b")) else { return };
        let (lam, g): (&str, Box<dyn Fn(i32, i32) -> Option<i32>>) = match f.rem_euclid(3) {
          0 => ("(k, v1, v2) -> Option.Some(v1 + v2)", Box::new(|x, y| Some(add(x, y)))),
          1 => ("(k, v1, v2) -> Option.None()", Box::new(|_, _| None)),
          _ => ("(k, v1, v2) -> Option.Some(v2)", Box::new(|_, y| Some(y))),
        };
        let mut m = BTreeMap::new();
        for (k, v) in m1 {
          match m2.get(k) {
            None => {
              m.insert(*k, *v);
            }
            Some(v2) => {
              if let Some(x) = g(*v, *v2) {
                m.insert(*k, x);
              }
            }
          }
        }
        for (k, v) in m2 {
          if !m1.contains_key(k) {
            m.insert(*k, *v);
          }
        }
        self.bind(i, Val::M(m), format!("x{a}.customizedUnion(x{bb}, {lam})"));
      }
      "map.split" => {
        let Some((a, m)) = self.m(o, "a") else { return };
        let l: BTreeMap<i32, i32> = m.iter().filter(|(x, _)| **x < k).map(|(x, y)| (*x, *y)).collect();
        let r: BTreeMap<i32, i32> = m.iter().filter(|(x, _)| **x > k).map(|(x, y)| (*x, *y)).collect();
        let mid = opt_i(m.get(&k).copied());
        let n1 = self.new_var(Val::M(l));
        let n2 = self.new_var(Val::M(r));
        self.code.push(format!("let (x{n1}, o{n1}, x{n2}) = x{a}.split({});", boxed(k)));
        self.print(i, &format!("Main.oi(o{n1})"), mid);
        self.dump_existing(i, n1);
        self.dump_existing(i, n2);
      }
      "map.filter" => {
        let Some((a, m)) = self.m(o, "a") else { return };
        let (lam, p) = pred_map(f, c);
        let r: BTreeMap<i32, i32> = m.iter().filter(|(x, y)| p(**x, **y)).map(|(x, y)| (*x, *y)).collect();
        self.bind(i, Val::M(r), format!("x{a}.filter({lam})"));
      }
      "map.partition" => {
        let Some((a, m)) = self.m(o, "a") else { return };
        let (lam, p) = pred_map(f, c);
        let t: BTreeMap<i32, i32> = m.iter().filter(|(x, y)| p(**x, **y)).map(|(x, y)| (*x, *y)).collect();
        let e: BTreeMap<i32, i32> = m.iter().filter(|(x, y)| !p(**x, **y)).map(|(x, y)| (*x, *y)).collect();
        let n1 = self.new_var(Val::M(t));
        let n2 = self.new_var(Val::M(e));
        self.code.push(format!("let (x{n1}, x{n2}) = x{a}.partition({lam});"));
        self.dump_existing(i, n1);
        self.dump_existing(i, n2);
      }
      "map.fold" => {
        let Some((a, m)) = self.m(o, "a") else { return };
        let mut acc = sc;
        for (k, v) in m {
          acc = (acc % 10000) * 3 + k % 100 + v % 1000;
        }
        self.print(i, &format!("Str.fromInt(x{a}.fold({}, (acc, k, v) -> acc % 10000 * 3 + k.value % 100 + v % 1000))", lit(sc)), acc.to_string());
      }
      "map.minmax" => {
        let Some((a, m)) = self.m(o, "a") else { return };
        let p = |x: Option<(&i32, &i32)>| x.map(|(k, v)| format!("Some {k}={v}")).unwrap_or("None".into());
        let (mn, mx) = (p(m.iter().next()), p(m.iter().next_back()));
        let (mnk, mxk) = (opt_i(m.keys().next().copied()), opt_i(m.keys().next_back().copied()));
        self.print(i, &format!("Main.op(x{a}.min())"), mn);
        self.print(i, &format!("Main.op(x{a}.max())"), mx);
        self.print(i, &format!("Main.ok(x{a}.minKey())"), mnk);
        self.print(i, &format!("Main.ok(x{a}.maxKey())"), mxk);
      }
      "map.size" => {
        let Some((a, m)) = self.m(o, "a") else { return };
        let (n, e) = (m.len(), m.is_empty());
        self.print(i, &format!("Str.fromInt(x{a}.size())"), n.to_string());
        self.print(i, &format!("Main.sb(x{a}.isEmpty())"), b(e));
      }
      "map.entries" => {
        let Some((a, m)) = self.m(o, "a") else { return };
        let mut s = String::from("E:");
        for (k, v) in m {
          s.push_str(&format!("{k}={v};"));
        }
        self.print(i, &format!("Main.se(x{a}.entries())"), s);
      }
      "map.keys" => {
        let Some((a, m)) = self.m(o, "a") else { return };
        let l: Vec<i32> = m.keys().copied().collect();
        self.bind(i, Val::L(l), format!("x{a}.keys().map((e) -> e.value)"));
      }
      // ------------------------------------------------------------------ Set
      "set.empty" => self.bind(i, Val::S(BTreeSet::new()), "Set.empty<Int>()".into()),
      "set.singleton" => self.bind(i, Val::S(BTreeSet::from([k])), format!("Set.singleton({})", boxed(k))),
      "set.insert" => {
        let Some((a, m)) = self.s(o, "a") else { return };
        let mut m = m.clone();
        m.insert(k);
        self.bind(i, Val::S(m), format!("x{a}.insert({})", boxed(k)));
      }
      "set.bulk" => {
        let Some((a, m)) = self.s(o, "a") else { return };
        let mut m = m.clone();
        let mut e = format!("x{a}");
        for kv in o["kvs"].as_array().cloned().unwrap_or_default() {
          let k = kv[0].as_i64().unwrap_or(0) as i32;
          m.insert(k);
          e.push_str(&format!(".insert({})", boxed(k)));
        }
        self.bind(i, Val::S(m), e);
      }
      "set.remove" => {
        let Some((a, m)) = self.s(o, "a") else { return };
        let mut m = m.clone();
        m.remove(&k);
        self.bind(i, Val::S(m), format!("x{a}.remove({})", boxed(k)));
      }
      "set.contains" => {
        let Some((a, m)) = self.s(o, "a") else { return };
        let e = b(m.contains(&k));
        self.print(i, &format!("Main.sb(x{a}.contains({}))", boxed(k)), e);
      }
      "set.union" | "set.intersection" | "set.diff" => {
        let (Some((a, m1)), Some((bb, m2))) = (self.s(o, "a"), self.s(o, "b")) else { return };
        let (r, meth): (BTreeSet<i32>, &str) = match name.as_str() {
          "set.union" => (m1.union(m2).copied().collect(), "union"),
          "set.intersection" => (m1.intersection(m2).copied().collect(), "intersection"),
          _ => (m1.difference(m2).copied().collect(), "diff"),
        };
        self.bind(i, Val::S(r), format!("x{a}.{meth}(x{bb})"));
      }
      "set.split" => {
        let Some((a, m)) = self.s(o, "a") else { return };
        let l: BTreeSet<i32> = m.iter().filter(|x| **x < k).copied().collect();
        let r: BTreeSet<i32> = m.iter().filter(|x| **x > k).copied().collect();
        let mid = b(m.contains(&k));
        let n1 = self.new_var(Val::S(l));
        let n2 = self.new_var(Val::S(r));
        self.code.push(format!("let (x{n1}, o{n1}, x{n2}) = x{a}.split({});", boxed(k)));
        self.print(i, &format!("Main.sb(o{n1})"), mid);
        self.dump_existing(i, n1);
        self.dump_existing(i, n2);
      }
      "set.filter" => {
        let Some((a, m)) = self.s(o, "a") else { return };
        let (lam, p) = pred_elem(f, c, true);
        let r: BTreeSet<i32> = m.iter().filter(|x| p(**x)).copied().collect();
        self.bind(i, Val::S(r), format!("x{a}.filter({lam})"));
      }
      "set.partition" => {
        let Some((a, m)) = self.s(o, "a") else { return };
        let (lam, p) = pred_elem(f, c, true);
        let t: BTreeSet<i32> = m.iter().filter(|x| p(**x)).copied().collect();
        let e: BTreeSet<i32> = m.iter().filter(|x| !p(**x)).copied().collect();
        let n1 = self.new_var(Val::S(t));
        let n2 = self.new_var(Val::S(e));
        self.code.push(format!("let (x{n1}, x{n2}) = x{a}.partition({lam});"));
        self.dump_existing(i, n1);
        self.dump_existing(i, n2);
      }
      "set.fold" => {
        let Some((a, m)) = self.s(o, "a") else { return };
        let mut acc = sc;
        for k in m {
          acc = (acc % 10000) * 3 + k % 100;
        }
        self.print(i, &format!("Str.fromInt(x{a}.fold({}, (acc, e) -> acc % 10000 * 3 + e.value % 100))", lit(sc)), acc.to_string());
      }
      "set.minmax" => {
        let Some((a, m)) = self.s(o, "a") else { return };
        let (mn, mx) = (opt_i(m.iter().next().copied()), opt_i(m.iter().next_back().copied()));
        self.print(i, &format!("Main.ok(x{a}.min())"), mn);
        self.print(i, &format!("Main.ok(x{a}.max())"), mx);
      }
      "set.size" => {
        let Some((a, m)) = self.s(o, "a") else { return };
        let (n, e) = (m.len(), m.is_empty());
        self.print(i, &format!("Str.fromInt(x{a}.size())"), n.to_string());
        self.print(i, &format!("Main.sb(x{a}.isEmpty())"), b(e));
      }
      "set.elements" => {
        let Some((a, m)) = self.s(o, "a") else { return };
        let l: Vec<i32> = m.iter().copied().collect();
        self.bind(i, Val::L(l), format!("x{a}.elements().map((e) -> e.value)"));
      }
      "set.fromList" => {
        let Some((a, m)) = self.l(o, "a") else { return };
        let r: BTreeSet<i32> = m.iter().copied().collect();
        self.bind(i, Val::S(r), format!("Set.fromList(x{a}.map((e) -> Int.init(e)))"));
      }
      // ------------------------------------------------------------------ List
      "list.nil" => self.bind(i, Val::L(vec![]), "List.nil<int>()".into()),
      "list.of" => self.bind(i, Val::L(vec![k]), format!("List.of({})", lit(k))),
      "list.cons" => {
        let Some((a, m)) = self.l(o, "a") else { return };
        let mut r = vec![k];
        r.extend(m.iter().copied());
        self.bind(i, Val::L(r), format!("x{a}.cons({})", lit(k)));
      }
      "list.bulk" => {
        let Some((a, m)) = self.l(o, "a") else { return };
        let mut r = m.clone();
        let mut e = format!("x{a}");
        for kv in o["kvs"].as_array().cloned().unwrap_or_default() {
          let k = kv[0].as_i64().unwrap_or(0) as i32;
          r.insert(0, k);
          e.push_str(&format!(".cons({})", lit(k)));
        }
        self.bind(i, Val::L(r), e);
      }
      "list.append" | "list.reverseAndAppend" => {
        let (Some((a, m1)), Some((bb, m2))) = (self.l(o, "a"), self.l(o, "b")) else { return };
        let mut r = m1.clone();
        if name == "list.reverseAndAppend" {
          r.reverse();
        }
        r.extend(m2.iter().copied());
        let meth = &name[5..];
        self.bind(i, Val::L(r), format!("x{a}.{meth}(x{bb})"));
      }
      "list.reverse" => {
        let Some((a, m)) = self.l(o, "a") else { return };
        let mut r = m.clone();
        r.reverse();
        self.bind(i, Val::L(r), format!("x{a}.reverse()"));
      }
      "list.filter" => {
        let Some((a, m)) = self.l(o, "a") else { return };
        let (lam, p) = pred_elem(f, c, false);
        let r: Vec<i32> = m.iter().filter(|x| p(**x)).copied().collect();
        self.bind(i, Val::L(r), format!("x{a}.filter({lam})"));
      }
      "list.map" => {
        let Some((a, m)) = self.l(o, "a") else { return };
        let r: Vec<i32> = m.iter().map(|x| add(*x, sc)).collect();
        self.bind(i, Val::L(r), format!("x{a}.map((e) -> e + {})", lit(sc)));
      }
      "list.folds" => {
        let Some((a, m)) = self.l(o, "a") else { return };
        let mut acc = sc;
        for k in m {
          acc = (acc % 10000) * 3 + k % 100;
        }
        let mut right = String::from("R:");
        for k in m.iter().rev() {
          right.push_str(&format!("{k};"));
        }
        self.print(i, &format!("Str.fromInt(x{a}.fold((acc, e) -> acc % 10000 * 3 + e % 100, {}))", lit(sc)), acc.to_string());
        self.print(i, &format!("x{a}.foldRight((e, acc) -> acc :: Str.fromInt(e) :: \";\", \"R:\")"), right);
      }
      "list.size" => {
        let Some((a, m)) = self.l(o, "a") else { return };
        let (n, e) = (m.len(), m.is_empty());
        self.print(i, &format!("Str.fromInt(x{a}.length())"), n.to_string());
        self.print(i, &format!("Main.sb(x{a}.isEmpty())"), b(e));
      }
      "list.firstrest" => {
        let Some((a, m)) = self.l(o, "a") else { return };
        let first = opt_i(m.first().copied());
        let rest = if m.is_empty() { "None".to_string() } else { format!("Some {}", show_list(&m[1..])) };
        self.print(i, &format!("Main.oi(x{a}.first())"), first);
        self.print(i, &format!("Main.ol(x{a}.rest())"), rest);
      }
      _ => {}
    }
    if ovf.get() {
      self.overflow = true;
    }
  }
}

const PRELUDE: &str = r#"import { Int } from std.boxed;
import { List } from std.list;
import { Map } from std.map;
import { Option } from std.option;
import { Set } from std.set;
import { Pair, Triple } from std.tuples;

class Main {
  function sm(m: Map<Int, int>): Str =
    m.fold("M:", (acc, k, v) -> acc :: k.toString() :: "=" :: Str.fromInt(v) :: ";")

  function ss(s: Set<Int>): Str = s.fold("S:", (acc, e) -> acc :: e.toString() :: ";")

  function sl(l: List<int>): Str = l.fold((acc, e) -> acc :: Str.fromInt(e) :: ";", "L:")

  function se(l: List<Pair<Int, int>>): Str =
    l.fold((acc, p) -> acc :: p.e0.toString() :: "=" :: Str.fromInt(p.e1) :: ";", "E:")

  function oi(o: Option<int>): Str =
    match o {
      Some(v) -> "Some " :: Str.fromInt(v),
      None -> "None",
    }

  function ok(o: Option<Int>): Str =
    match o {
      Some(v) -> "Some " :: v.toString(),
      None -> "None",
    }

  function op(o: Option<Pair<Int, int>>): Str =
    match o {
      Some(p) -> "Some " :: p.e0.toString() :: "=" :: Str.fromInt(p.e1),
      None -> "None",
    }

  function ol(o: Option<List<int>>): Str =
    match o {
      Some(l) -> "Some " :: Main.sl(l),
      None -> "None",
    }

  function sb(b: bool): Str = if b { "true" } else { "false" }

"#;

pub fn build(ops: &[Value]) -> (String, Vec<String>, Vec<String>, bool) {
  let mut st = St { vars: vec![], code: vec![], expect: vec![], names: vec![], overflow: false };
  for (i, o) in ops.iter().enumerate() {
    st.step(i, o);
  }
  let mut text = String::from(PRELUDE);
  text.push_str("  function main(): unit = {\n");
  for l in &st.code {
    text.push_str("    ");
    text.push_str(l);
    text.push('\n');
  }
  text.push_str("  }\n}\n");
  (text, st.expect, st.names, st.overflow)
}

/// operation a line index belongs to
fn op_of_line(line: Option<&String>, names: &[String]) -> String {
  line.and_then(|l| l.split('|').next()).and_then(|i| i.parse::<usize>().ok()).and_then(|i| names.get(i).cloned()).unwrap_or_else(|| "?".into())
}

fn judge(out: &mut Outcome, engine: &str, expect: &[String], got: &[String], end: &str, message: &str, names: &[String], text: &str) {
  let upto = expect.len().min(got.len());
  for i in 0..upto {
    if expect[i] != got[i] {
      let op = op_of_line(expect.get(i), names);
      out.fail(format!("{op}/wrong-result"), format!("[{engine}] operation #{} ({op}): expected {:?}, printed {:?}\n{text}", expect[i].split('|').next().unwrap_or("?"), expect[i], got[i]));
      return;
    }
  }
  if end != "return" && end != "ok" {
    // the operation that was executing: the one after the last complete line, or the same if it prints several lines
    let op = op_of_line(expect.get(got.len()), names);
    out.fail(format!("{op}/{}:{}", end, crate::engine::msg_class(message)), format!("[{engine}] the driver ended with {end} ({message:?}) while executing {op} (after {} of {} expected lines)\n{text}", got.len(), expect.len()));
    return;
  }
  if got.len() != expect.len() {
    let op = op_of_line(expect.get(upto), names);
    out.fail(format!("{op}/line-count"), format!("[{engine}] {} lines printed, {} expected\n{text}", got.len(), expect.len()));
  }
}

impl Prop for C18 {
  fn id(&self) -> &'static str {
    "C18"
  }
  fn rule(&self) -> String {
    "operation histories (quick: up to 40, thorough: up to 120 operations) over registers of Map<Int,int>, Set<Int> and List<int> values: insert / bulk insert / remove / lookup / update (4 updaters) / union / customizedUnion (3 mergers) / intersection / diff / split / filter and partition (3 predicate families) / fold / min / max / minKey / maxKey / size / isEmpty / entries / keys / elements / fromList / cons / append / reverse / reverseAndAppend / map / foldRight / first / rest, operands chosen among all earlier results; keys from a per-history pool of 6, 16 or 48 keys that is dense (0..n), offset or spread over +-2^30 (so that Int.compare never overflows); oracle: BTreeMap / BTreeSet / Vec - the driver program prints every result (collections dumped in fold order) and every printed line must equal the model's line, both when the driver (with the std sources) is run by the reference interpreter and when the compiled WebAssembly is run in node; non-trivial = >=8 operations, some collection of >=5 elements and >=1 binary or splitting operation (union / intersection / diff / split / partition / append); distinct = hash of the driver program".into()
  }
  fn assumptions(&self) -> Vec<String> {
    vec![
      "only the operations named by the property are judged; merge, map, iter, forAll, exists, equal, compare, subset and disjoint are not generated".into(),
      "Map.union is left-biased (the receiver's binding wins), as its defaultUnionMerger states".into(),
      "arithmetic in folds wraps at 32 bits in the model as in the language".into(),
    ]
  }
  fn params(&self, tier: Tier) -> Params {
    match tier {
      Tier::Quick => Params { cases: 2500, tape_len: 1200, workers: 14, stack_mb: 256, worker_timeout_s: 1500, shrink_iters: 400 },
      Tier::Thorough => Params { cases: 60_000, tape_len: 4000, workers: 16, stack_mb: 256, worker_timeout_s: 5 * 3600, shrink_iters: 400 },
    }
  }
  fn generate(&self, t: &mut Tape, tier: Tier) -> Value {
    let max_ops = if tier == Tier::Quick { 40 } else { 120 };
    let n_ops = 3 + t.choose(max_ops - 2);
    let pool_n = [6usize, 16, 48][t.choose(3)];
    let shape = t.choose(3);
    let pool: Vec<i32> = (0..pool_n)
      .map(|i| match shape {
        0 => i as i32,
        1 => (i as i32) * 3 - 20,
        _ => t.int_in(-(1 << 30), (1 << 30) - 1) as i32,
      })
      .collect();
    // kinds of the variables created so far: 0 map, 1 set, 2 list
    let mut kinds: Vec<u8> = vec![];
    let mut ops: Vec<Value> = vec![];
    let pick = |t: &mut Tape, kinds: &[u8], kind: u8| -> Option<usize> {
      let c: Vec<usize> = kinds.iter().enumerate().filter(|(_, k)| **k == kind).map(|(i, _)| i).collect();
      if c.is_empty() {
        return None;
      }
      // prefer recent values
      let recent = c.len().min(4);
      Some(if t.bool(3, 4) { c[c.len() - 1 - t.choose(recent)] } else { c[t.choose(c.len())] })
    };
    for _ in 0..n_ops {
      let k = pool[t.choose(pool.len())];
      let v = t.int_in(-50, 50);
      let c = if t.bool(1, 2) { pool[t.choose(pool.len())] as i64 } else { t.int_in(-5, 5) };
      let f = t.choose(12);
      let family = t.weighted(&[5, 4, 2]) as u8;
      let a = pick(t, &kinds, family);
      let b = pick(t, &kinds, family);
      let bulk = |t: &mut Tape| -> Vec<Value> { (0..2 + t.choose(11)).map(|_| json!([pool[t.choose(pool.len())], t.int_in(-50, 50)])).collect() };
      let mut o = json!({"k": k, "v": v, "c": c, "f": f});
      let name: &str = match (family, a) {
        (0, None) => ["map.empty", "map.singleton"][t.choose(2)],
        (1, None) => ["set.empty", "set.singleton"][t.choose(2)],
        (2, None) => ["list.nil", "list.of"][t.choose(2)],
        (0, Some(_)) => ["map.insert", "map.insert", "map.bulk", "map.bulk", "map.remove", "map.remove", "map.get", "map.update", "map.update", "map.union", "map.union", "map.unionWith", "map.unionWith", "map.split", "map.split", "map.filter", "map.partition", "map.fold", "map.minmax", "map.size", "map.entries", "map.keys", "map.empty", "map.singleton"][t.choose(24)],
        (1, Some(_)) => ["set.insert", "set.insert", "set.bulk", "set.bulk", "set.remove", "set.remove", "set.contains", "set.union", "set.union", "set.intersection", "set.intersection", "set.diff", "set.diff", "set.split", "set.split", "set.filter", "set.partition", "set.fold", "set.minmax", "set.size", "set.elements", "set.empty", "set.singleton", "set.fromList"][t.choose(24)],
        _ => ["list.cons", "list.bulk", "list.append", "list.reverseAndAppend", "list.reverse", "list.filter", "list.map", "list.folds", "list.size", "list.firstrest", "list.nil", "list.of"][t.choose(12)],
      };
      let mut name = name;
      if name == "set.fromList" {
        match pick(t, &kinds, 2) {
          Some(l) => o["a"] = json!(l),
          None => name = "set.empty",
        }
      } else {
        o["a"] = json!(a.unwrap_or(0));
        o["b"] = json!(b.unwrap_or(0));
      }
      if name.ends_with(".bulk") {
        o["kvs"] = json!(bulk(t));
      }
      o["op"] = json!(name);
      // results
      let produced: &[u8] = match name {
        "map.empty" | "map.singleton" | "map.insert" | "map.bulk" | "map.remove" | "map.update" | "map.union" | "map.unionWith" | "map.filter" => &[0],
        "map.split" | "map.partition" => &[0, 0],
        "map.keys" | "set.elements" => &[2],
        "set.empty" | "set.singleton" | "set.insert" | "set.bulk" | "set.remove" | "set.union" | "set.intersection" | "set.diff" | "set.filter" | "set.fromList" => &[1],
        "set.split" | "set.partition" => &[1, 1],
        "list.nil" | "list.of" | "list.cons" | "list.bulk" | "list.append" | "list.reverseAndAppend" | "list.reverse" | "list.filter" | "list.map" => &[2],
        _ => &[],
      };
      kinds.extend_from_slice(produced);
      ops.push(o);
    }
    json!({"ops": ops, "pool": pool})
  }

  fn check(&self, art: &Value) -> Outcome {
    let mut out = Outcome::default();
    let ops = art["ops"].as_array().cloned().unwrap_or_default();
    let (text, expect, names, overflow) = build(&ops);
    out.key = fnv(text.as_bytes());
    if overflow {
      return Outcome::discarded("history-overflows-32-bit-arithmetic");
    }
    // classification from the model
    let mut st = St { vars: vec![], code: vec![], expect: vec![], names: vec![], overflow: false };
    for (i, o) in ops.iter().enumerate() {
      st.step(i, o);
    }
    let biggest = st.vars.iter().map(|v| match v { Val::M(m) => m.len(), Val::S(m) => m.len(), Val::L(m) => m.len() }).max().unwrap_or(0);
    let binary = names.iter().filter(|n| ["union", "unionWith", "intersection", "diff", "split", "partition", "append", "reverseAndAppend"].iter().any(|b| n.ends_with(b))).count();
    out.nontrivial = names.len() >= 8 && biggest >= 5 && binary >= 1;
    out.label(format!("largest-collection:{}", if biggest < 5 { "<5" } else if biggest < 12 { "5-11" } else if biggest < 24 { "12-23" } else { ">=24" }));
    out.label(format!("ops:{}", if names.len() < 8 { "<8" } else if names.len() < 20 { "8-19" } else { ">=20" }));
    for n in names.iter().collect::<BTreeSet<_>>() {
      out.label(format!("op:{n}"));
    }
    out.sample = Some(json!({"ops": names.len(), "largest_collection": biggest, "first_ops": names.iter().take(12).collect::<Vec<_>>(), "expected_first_lines": expect.iter().take(6).collect::<Vec<_>>()}));
    let mods: Mods = vec![(vec!["Driver".to_string()], text.clone())];
    let entry = vec!["Driver".to_string()];
    // 1. the reference semantics
    match reference_run(&mods, &entry, 6_000_000) {
      None => {
        let why = super::c06::front_end_errors(&mods, &entry).map(|x| x.2.join(" / ")).unwrap_or_else(|e| e.1);
        return Outcome::discarded(format!("INFRA:driver-does-not-load:{}", crate::engine::msg_class(&why)));
      }
      Some(run) => match &run.end {
        End::Budget => out.label("reference:budget-exceeded(not compared)"),
        End::Excluded(m) => return Outcome::discarded(format!("reference-excluded:{}", crate::engine::msg_class(m))),
        End::Stuck(m) => return Outcome::discarded(format!("INFRA:reference-stuck:{}", crate::engine::msg_class(m))),
        end => {
          let (e, m) = match end {
            End::Return => ("return", String::new()),
            End::Panic(m) => ("panic", m.clone()),
            _ => ("vec-bounds", String::new()),
          };
          judge(&mut out, "reference interpreter", &expect, &run.lines, e, &m, &names, &text);
          out.label("reference:compared");
        }
      },
    }
    if !out.failures.is_empty() {
      return out;
    }
    // 2. the compiled program
    match run_pipeline(&mods, &entry, false) {
      Pipeline::NoNode => return Outcome::discarded("INFRA:node-unavailable"),
      Pipeline::Rejected(m) => return Outcome::discarded(format!("INFRA:driver-rejected:{}", crate::engine::msg_class(&m))),
      Pipeline::CompilePanic(e) => {
        out.label(format!("compiled:compiler-panic(C03):{}", e.0));
      }
      Pipeline::Executed(x) => {
        let w = &x.wasm;
        match w.end.as_str() {
          "timeout" | "infra" => out.label("compiled:not-compared(timeout)"),
          "compile-error" | "link-error" => out.label("compiled:not-loadable(C03)"),
          end => {
            let mut o2 = Outcome::default();
            judge(&mut o2, "compiled WebAssembly", &expect, &w.lines, if end == "ok" { "return" } else { end }, &w.message, &names, &text);
            for f in o2.failures {
              out.fail(format!("compiled-only/{}", f.sig), f.detail);
            }
            out.label("compiled:compared");
          }
        }
      }
    }
    out
  }
}
