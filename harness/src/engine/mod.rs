//! Shared engine: property trait, outcomes, worker loop (proptest over a choice tape),
//! parent orchestration (process isolation, replays, known-finding probes, evidence).

pub mod findings;
pub mod node;
pub mod parent;
pub mod tape;
pub mod worker;

use serde_json::Value;
pub use tape::Tape;

#[derive(Clone, Copy, Debug, PartialEq, Eq)]
pub enum Tier {
  Quick,
  Thorough,
}

impl Tier {
  pub fn name(self) -> &'static str {
    match self {
      Tier::Quick => "quick",
      Tier::Thorough => "thorough",
    }
  }
  pub fn parse(s: &str) -> Tier {
    if s == "thorough" { Tier::Thorough } else { Tier::Quick }
  }
}

#[derive(Clone, Debug)]
pub struct Failure {
  /// root-cause signature: `<class>/<key>`; compared verbatim with known_findings.json
  pub sig: String,
  pub detail: String,
}

#[derive(Clone, Debug, Default)]
pub struct Outcome {
  pub failures: Vec<Failure>,
  /// case is outside the property's domain (counted by reason, never a verdict)
  pub discard: Option<String>,
  pub nontrivial: bool,
  /// structural hash used to count *distinct* non-trivial cases
  pub key: u64,
  /// classification labels (generator distribution table in evidence)
  pub labels: Vec<String>,
  /// human-readable rendering of the case for evidence samples
  pub sample: Option<Value>,
}

impl Outcome {
  pub fn fail(&mut self, sig: impl Into<String>, detail: impl Into<String>) {
    self.failures.push(Failure { sig: sig.into(), detail: detail.into() });
  }
  pub fn label(&mut self, l: impl Into<String>) {
    self.labels.push(l.into());
  }
  pub fn discarded(reason: impl Into<String>) -> Outcome {
    Outcome { discard: Some(reason.into()), ..Default::default() }
  }
}

#[derive(Clone, Debug)]
pub struct Params {
  pub cases: u64,
  pub tape_len: usize,
  pub workers: usize,
  /// stack of the thread that runs product code, MiB
  pub stack_mb: usize,
  /// safety-net wall clock per worker, seconds (expiry => exit 2, never a violation)
  pub worker_timeout_s: u64,
  /// proptest shrink iterations per failure (expensive properties use fewer)
  pub shrink_iters: u32,
}

pub trait Prop: Sync + Send {
  fn id(&self) -> &'static str;
  fn level(&self) -> &'static str {
    "exploration"
  }
  fn rule(&self) -> String;
  fn assumptions(&self) -> Vec<String>;
  fn params(&self, tier: Tier) -> Params;
  /// per-process initialisation (read corpus, start node, ...)
  fn setup(&self, _tier: Tier) {}
  /// Build one case (the *artifact*, self-contained JSON) from the tape.
  fn generate(&self, tape: &mut Tape, tier: Tier) -> Value;
  /// Decide the property on one artifact. Panics of product code must be caught inside
  /// (use `guard`); a panic escaping from here is reported as `harness-panic`.
  fn check(&self, art: &Value) -> Outcome;
  /// deterministic extra cases (repository files, ...) run once by worker 0
  fn fixed_cases(&self, _tier: Tier) -> Vec<Value> {
    vec![]
  }
  /// Extra evidence fields computed by the parent at the end.
  fn extra_evidence(&self) -> Option<Value> {
    None
  }
}

// ---------------------------------------------------------------------------------------
// panic capture

use std::cell::RefCell;
thread_local! {
  static LAST_PANIC: RefCell<Option<(String, String)>> = const { RefCell::new(None) };
}
static LAST_PANIC_GLOBAL: std::sync::Mutex<Option<(String, String)>> = std::sync::Mutex::new(None);

pub fn install_panic_hook() {
  std::panic::set_hook(Box::new(|info| {
    let loc = info
      .location()
      .map(|l| {
        let f = l.file();
        // keep the path relative to the repository so signatures are stable
        let f = f.strip_prefix("/repo/").unwrap_or(f);
        format!("{}:{}", f, l.line())
      })
      .unwrap_or_else(|| "?".to_string());
    let msg = if let Some(s) = info.payload().downcast_ref::<&str>() {
      s.to_string()
    } else if let Some(s) = info.payload().downcast_ref::<String>() {
      s.clone()
    } else {
      "<non-string panic>".to_string()
    };
    LAST_PANIC.with(|p| *p.borrow_mut() = Some((loc.clone(), msg.clone())));
    // panics on rayon worker threads are re-thrown on the caller, whose thread-local is empty
    *LAST_PANIC_GLOBAL.lock().unwrap_or_else(|e| e.into_inner()) = Some((loc, msg));
  }));
}

/// Message class: the message with digits and quoted/identifier-like payload removed,
/// truncated, so one root cause gives one signature.
pub fn msg_class(msg: &str) -> String {
  let mut out = String::new();
  let mut last_hash = false;
  for c in msg.chars().take(200) {
    if c.is_ascii_digit() {
      if !last_hash {
        out.push('#');
        last_hash = true;
      }
    } else {
      last_hash = false;
      if c == '\n' {
        break;
      }
      out.push(c);
    }
  }
  out.chars().take(80).collect()
}

/// Run product code; Err((location, message)) if it panicked.
pub fn guard<T>(f: impl FnOnce() -> T) -> Result<T, (String, String)> {
  LAST_PANIC.with(|p| *p.borrow_mut() = None);
  *LAST_PANIC_GLOBAL.lock().unwrap_or_else(|e| e.into_inner()) = None;
  match std::panic::catch_unwind(std::panic::AssertUnwindSafe(f)) {
    Ok(v) => Ok(v),
    Err(_) => {
      let local = LAST_PANIC.with(|p| p.borrow_mut().take());
      let global = LAST_PANIC_GLOBAL.lock().unwrap_or_else(|e| e.into_inner()).take();
      // prefer the *first* location recorded on this thread if it is in product code,
      // otherwise what a rayon thread recorded
      let (loc, msg) = match (local, global) {
        (Some(l), Some(g)) => {
          if l.0.contains("rayon") || l.0.starts_with("/root/.cargo") { g } else { l }
        }
        (Some(l), None) => l,
        (None, Some(g)) => g,
        (None, None) => ("?".to_string(), "?".to_string()),
      };
      Err((loc, msg))
    }
  }
}

pub fn panic_sig(site: &str, e: &(String, String)) -> String {
  format!("panic/{}/{}/{}", site, e.0, msg_class(&e.1))
}

// ---------------------------------------------------------------------------------------
// small helpers

pub fn fnv(bytes: &[u8]) -> u64 {
  let mut h: u64 = 0xcbf29ce484222325;
  for b in bytes {
    h ^= *b as u64;
    h = h.wrapping_mul(0x100000001b3);
  }
  h
}

pub fn verif_root() -> std::path::PathBuf {
  std::env::var("VERIF_ROOT").map(std::path::PathBuf::from).unwrap_or_else(|_| "/verif".into())
}

pub fn repo_root() -> std::path::PathBuf {
  std::env::var("VERIF_REPO").map(std::path::PathBuf::from).unwrap_or_else(|_| "/repo".into())
}
