//! G2 – hostile input generators: random bytes, token soups over the language's own
//! vocabulary, deep nesting, and mutations of a corpus (repository .sam files and
//! grammar-generated valid modules).

use crate::engine::Tape;
use crate::model::toks::{KEYWORDS, Kind, OPS, tokenize};

const IDS: &[&str] = &["a", "b", "foo", "Foo", "A", "B", "Main", "main", "Str", "Process", "Vec", "println", "init", "this", "missing", "T", "x1", "veryLongIdentifierThatIsHeapAllocated1"];
const LITS: &[&str] = &[
  "0", "1", "42", "007", "2147483647", "2147483648", "2147483649", "4294967296", "99999999999999999999", "-2147483648", "\"\"", "\"s\"", "\"a\\nb\"", "\"q\\\"\"", "\"\\\\\"", "\"bad\\escape\"", "\"unterminated",
  "\"é\"", "\"\\\"", "\"",
];
const TRIVIA: &[&str] = &[" ", " ", " ", "\n", "\t", "\r\n", "", "//", "// c\n", "/*", "*/", "/**/", "/***/", "/* c */", "/** d */", "/*/", "/**", "\u{a0}", "\u{feff}", "é", "日本", "\0", "\\", "#", "@", "$", "`", "'"];

pub fn random_bytes(t: &mut Tape, max: usize) -> String {
  let n = t.small_len(max);
  let mut v = Vec::with_capacity(n);
  for _ in 0..n {
    let r = t.raw();
    // bias towards ASCII printable / structural characters
    let b = match r & 7 {
      0 => (r >> 8) as u8,
      1 => {
        let set = b"(){}<>,.;:=|!-+*/%&\"\\_\n ";
        set[((r >> 8) as usize) % set.len()]
      }
      _ => 0x20 + ((r >> 8) % 95) as u8,
    };
    v.push(b);
  }
  String::from_utf8_lossy(&v).to_string()
}

pub fn token_soup(t: &mut Tape, max: usize) -> String {
  let n = 1 + t.small_len(max);
  let mut out = String::new();
  for _ in 0..n {
    match t.weighted(&[6, 8, 6, 4, 3]) {
      0 => out.push_str(KEYWORDS[t.choose(KEYWORDS.len())]),
      1 => out.push_str(OPS[t.choose(OPS.len())]),
      2 => out.push_str(IDS[t.choose(IDS.len())]),
      3 => out.push_str(LITS[t.choose(LITS.len())]),
      _ => out.push_str(TRIVIA[t.choose(TRIVIA.len())]),
    }
    out.push_str(TRIVIA[t.choose(8)]);
  }
  out
}

/// structured soup: a plausible skeleton with holes filled by soups (reaches recovery
/// paths deeper inside classes / members / expressions)
pub fn skeleton_soup(t: &mut Tape, max: usize) -> String {
  let mut out = String::new();
  if t.bool(1, 3) {
    out.push_str("import { ");
    out.push_str(&token_soup(t, 3));
    out.push_str(" } from ");
    out.push_str(&token_soup(t, 2));
    out.push('\n');
  }
  let classes = 1 + t.choose(2);
  for _ in 0..classes {
    out.push_str(["class ", "interface ", "private class ", "class A", "class "][t.choose(5)]);
    out.push_str(&token_soup(t, 4));
    out.push_str(" { ");
    let members = t.small_len(3);
    for _ in 0..members {
      out.push_str(["function ", "method ", "private function ", "function f(", "method <T> m(a: int): "][t.choose(5)]);
      out.push_str(&token_soup(t, max / 4 + 1));
      out.push_str([" = ", " = { ", " = match ", " = if ", " = (", ""][t.choose(6)]);
      out.push_str(&token_soup(t, max / 2 + 1));
      out.push_str([" ", " } ", " ) ", ""][t.choose(4)]);
    }
    out.push_str([" }", "", " } }"][t.choose(3)]);
    out.push('\n');
  }
  out
}

pub fn deep_nesting(t: &mut Tape, max_depth: usize, if_depth_cap: Option<usize>) -> String {
  let mut d = 1 + t.int_in(0, max_depth as i64) as usize;
  let shape = t.choose(14);
  if shape == 8 && let Some(cap) = if_depth_cap {
    d = d.min(cap);
  }
  let body = match shape {
    0 => format!("{}x{}", "(".repeat(d), ")".repeat(d)),
    1 => format!("{}x{}", "{ ".repeat(d), " }".repeat(d)),
    2 => format!("{}x", "() -> ".repeat(d)),
    3 => format!("{}x{}", "(a, ".repeat(d), ")".repeat(d)),
    4 => format!("{}x", "!".repeat(d)),
    5 => format!("x{}", ".f".repeat(d)),
    6 => format!("x{}", "(y)".repeat(d)),
    7 => format!("x{}", " + y".repeat(d)),
    8 => format!("{}x{}", "if c { ".repeat(d), " } else { y }".repeat(d)),
    9 => format!("{}x{}", "match v { A(b) -> ".repeat(d), " }".repeat(d)),
    10 => format!("{{ let {}x{} = y; 1 }}", "(".repeat(d), ", _)".repeat(d)),
    11 => format!("{{ let v: {}int{} = y; 1 }}", "A<".repeat(d), ">".repeat(d)),
    12 => format!("{{ let v: {}int = y; 1 }}", "(int) -> ".repeat(d)),
    _ => format!("{}x{}", "f(".repeat(d), ")".repeat(d)),
  };
  // optionally unbalanced
  let body = if t.bool(1, 4) {
    let cut = t.choose(body.len().max(1));
    body[..cut].to_string()
  } else {
    body
  };
  format!("class Main {{ function main(): unit = {body} }}\n")
}

/// token-level and byte-level mutation of a valid text
pub fn mutate(t: &mut Tape, text: &str, donor: &str) -> String {
  let toks = tokenize(text);
  if toks.is_empty() {
    return text.to_string();
  }
  let n = 1 + t.choose(3);
  let mut text = text.to_string();
  for _ in 0..n {
    let toks = tokenize(&text);
    if toks.is_empty() {
      break;
    }
    let i = t.choose(toks.len());
    let tk = &toks[i];
    let (s, e) = (tk.off, tk.off + token_len(&text, tk));
    match t.choose(9) {
      0 => text.replace_range(s..e, ""),
      1 => {
        let dup = text[s..e].to_string();
        text.insert_str(e, &format!(" {dup}"));
      }
      2 => {
        let j = t.choose(toks.len());
        let tj = &toks[j];
        let (s2, e2) = (tj.off, tj.off + token_len(&text, tj));
        if e <= s2 {
          let a = text[s..e].to_string();
          let b = text[s2..e2].to_string();
          text.replace_range(s2..e2, &a);
          text.replace_range(s..e, &b);
        }
      }
      3 => {
        // replace by a token of the same class
        let rep = match tk.kind {
          Kind::Keyword => KEYWORDS[t.choose(KEYWORDS.len())],
          Kind::Op => OPS[t.choose(OPS.len())],
          Kind::Upper | Kind::Lower => IDS[t.choose(IDS.len())],
          _ => LITS[t.choose(LITS.len())],
        };
        text.replace_range(s..e, rep);
      }
      4 => {
        // truncate at a byte (char boundary)
        let mut cut = t.choose(text.len().max(1));
        while !text.is_char_boundary(cut) {
          cut -= 1;
        }
        text.truncate(cut);
      }
      5 => {
        // insert multi-byte / odd characters at a char boundary
        let mut at = t.choose(text.len().max(1));
        while !text.is_char_boundary(at) {
          at -= 1;
        }
        text.insert_str(at, TRIVIA[8 + t.choose(TRIVIA.len() - 8)]);
      }
      6 => {
        // splice a token range from the donor
        let dt = tokenize(donor);
        if !dt.is_empty() {
          let a = t.choose(dt.len());
          let b = (a + 1 + t.choose(12)).min(dt.len());
          let ds = dt[a].off;
          let de = if b < dt.len() { dt[b].off } else { donor.len() };
          let piece = donor[ds..de].to_string();
          text.replace_range(s..e, &piece);
        }
      }
      7 => {
        // delete a token range
        let j = (i + 1 + t.choose(6)).min(toks.len() - 1);
        let e2 = toks[j].off;
        if e2 > s {
          text.replace_range(s..e2, "");
        }
      }
      _ => {
        text.insert_str(s, TRIVIA[t.choose(TRIVIA.len())]);
      }
    }
  }
  text
}

fn token_len(text: &str, tk: &crate::model::toks::Tok) -> usize {
  // comments carry normalised text; recover the raw span from positions
  let start = tk.off;
  let mut line = tk.line;
  let mut col = tk.col;
  let b = text.as_bytes();
  let mut i = start;
  while i < b.len() && (line, col) != (tk.end_line, tk.end_col) {
    if b[i] == b'\n' {
      line += 1;
      col = 0;
    } else {
      col += 1;
    }
    i += 1;
  }
  let mut n = i - start;
  while start + n < text.len() && !text.is_char_boundary(start + n) {
    n += 1;
  }
  n
}

/// well-formed-looking programs with boundary sizes and arity mismatches (checker paths)
pub fn arity_templates(t: &mut Tape) -> String {
  let n = [0usize, 1, 2, 3, 15, 16, 17, 18, 33][t.choose(9)];
  let m = [1usize, 2, 3, 4, 16, 17][t.choose(6)];
  let ids = |k: usize, s: &str| (0..k).map(|i| format!("{s}{i}")).collect::<Vec<_>>().join(", ");
  let same = |k: usize, s: &str| (0..k).map(|_| s.to_string()).collect::<Vec<_>>().join(", ");
  let body = match t.choose(14) {
    0 => format!("{{ let a = 1; let v = ({}); 1 }}", same(n, "a")),
    1 => format!("{{ let a = 1; let v = ({}, 2); 1 }}", same(n, "a")),
    2 => format!("{{ let p = (1, 2); match p {{ ({}) -> 1, ({}) -> 2 }} }}", ids(n.max(1), "a"), ids(m, "b")),
    3 => format!("{{ let ({}) = ({}); 1 }}", ids(n.max(1), "a"), same(m, "1")),
    4 => format!("{{ let o = Opt.Some(1); match o {{ Some({}) -> 1, None -> 2 }} }}", ids(n.max(1), "a")),
    5 => format!("{{ let o = Opt.Some(1); match o {{ Some(a) -> 1, None({}) -> 2, Other -> 3 }} }}", ids(m, "b")),
    6 => format!("{{ let f = ({}) -> 1; f({}) }}", ids(n, "a"), same(m, "1")),
    7 => format!("Main.many({})", same(n, "1")),
    8 => format!("{{ let s = S.init({}); let {{ {} }} = s; 1 }}", same(n, "1"), ids(m, "f")),
    9 => format!("{{ let s = S.init(1, 2); let {{ f0 as ({}), zzz }} = s; 1 }}", ids(m, "q")),
    10 => format!("{{ let o = Opt.Some(1); if let Some({}) = o {{ 1 }} else {{ 2 }} }}", ids(n.max(1), "a")),
    11 => format!("{{ let v: Pair<{}> = (1, 2); 1 }}", same(n.max(1), "int")),
    12 => format!("{{ let g = Main.gen<{}>(1); 1 }}", same(n.max(1), "int")),
    _ => format!("{{ let t = ({}); match t {{ ({}) -> 1 }} }}", same(m.max(2), "1"), ids(n.max(1), "x")),
  };
  let fields = (0..[1usize, 2, 16, 17][t.choose(4)]).map(|i| format!("val f{i}: int")).collect::<Vec<_>>().join(", ");
  let params = (0..[0usize, 1, 16, 17][t.choose(4)]).map(|i| format!("p{i}: int")).collect::<Vec<_>>().join(", ");
  format!(
    "class Opt<T>(None, Some(T)) {{}}\nclass S({fields}) {{}}\nclass Main {{\n  function many({params}): int = 1\n  function <T> gen(a: T): T = a\n  function main(): int = {body}\n}}\n"
  )
}
