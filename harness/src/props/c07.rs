//! C07 – exhaustiveness / usefulness analysis of patterns is exact.
//! Generated type declarations and pattern lists are judged by brute-force enumeration of all
//! values of the scrutinee type (to the patterns' depth + 1, leaves abstract) with the harness's
//! own matcher; the checker is observed only through its diagnostics.

use crate::engine::{Outcome, Params, Prop, Tape, Tier, fnv, guard};
use samlang_ast::Description;
use samlang_errors::{ErrorDetail, ErrorSet};
use samlang_heap::Heap;
use serde_json::{Value, json};
use std::collections::HashMap;

pub struct C07;

// ------------------------------------------------------------------------------- model

#[derive(Clone, Debug, PartialEq)]
enum PT {
  Leaf,
  Enum(usize),
  Struct(usize),
  Tuple(Vec<PT>),
  /// generic `Opt<T>(Non, Som(T))` instantiated at a type
  Opt(Box<PT>),
}

#[derive(Clone, Debug)]
struct Decls {
  enums: Vec<Vec<(String, Vec<PT>)>>,
  structs: Vec<Vec<(String, PT)>>,
  uses_opt: bool,
}

#[derive(Clone, Debug)]
enum P {
  Wild,
  Var(String),
  Variant(String, Vec<P>),
  Tuple(Vec<P>),
  Struct(Vec<(String, P)>),
  Or(Vec<P>),
}

#[derive(Clone, Debug, PartialEq)]
enum V {
  Leaf,
  Opaque,
  Variant(String, Vec<V>),
  Prod(Vec<V>),
}

fn ty_str(t: &PT) -> String {
  match t {
    PT::Leaf => "int".into(),
    PT::Enum(i) => format!("E{i}"),
    PT::Struct(i) => format!("S{i}"),
    PT::Tuple(ts) => format!("{}<{}>", if ts.len() == 2 { "Pair" } else { "Triple" }, ts.iter().map(ty_str).collect::<Vec<_>>().join(", ")),
    PT::Opt(t) => format!("Opt<{}>", ty_str(t)),
  }
}

fn pat_str(p: &P) -> String {
  match p {
    P::Wild => "_".into(),
    P::Var(n) => n.clone(),
    P::Variant(t, ps) => {
      if ps.is_empty() {
        t.clone()
      } else {
        format!("{t}({})", ps.iter().map(pat_str).collect::<Vec<_>>().join(", "))
      }
    }
    P::Tuple(ps) => format!("({})", ps.iter().map(pat_str).collect::<Vec<_>>().join(", ")),
    P::Struct(fs) => format!("{{ {} }}", fs.iter().map(|(f, p)| format!("{f} as {}", pat_str(p))).collect::<Vec<_>>().join(", ")),
    P::Or(ps) => ps.iter().map(pat_str).collect::<Vec<_>>().join(" | "),
  }
}

fn pat_depth(p: &P) -> u32 {
  match p {
    P::Wild | P::Var(_) => 0,
    P::Variant(_, ps) | P::Tuple(ps) | P::Or(ps) => 1 + ps.iter().map(pat_depth).max().unwrap_or(0),
    P::Struct(fs) => 1 + fs.iter().map(|(_, p)| pat_depth(p)).max().unwrap_or(0),
  }
}

fn variants_of<'a>(d: &'a Decls, t: &PT) -> Option<Vec<(String, Vec<PT>)>> {
  match t {
    PT::Enum(i) => Some(d.enums[*i].clone()),
    PT::Opt(x) => Some(vec![("Non".to_string(), vec![]), ("Som".to_string(), vec![(**x).clone()])]),
    _ => None,
  }
}

/// all values of `t` to the given depth; None when the universe exceeds the cap
fn values(d: &Decls, t: &PT, depth: u32, cap: usize) -> Option<Vec<V>> {
  if depth == 0 {
    return Some(vec![V::Opaque]);
  }
  let product = |parts: Vec<Vec<V>>| -> Option<Vec<Vec<V>>> {
    let mut acc: Vec<Vec<V>> = vec![vec![]];
    for p in parts {
      if acc.len().saturating_mul(p.len()) > cap {
        return None;
      }
      let mut next = Vec::with_capacity(acc.len() * p.len());
      for a in &acc {
        for x in &p {
          let mut b = a.clone();
          b.push(x.clone());
          next.push(b);
        }
      }
      if next.len() > cap {
        return None;
      }
      acc = next;
    }
    Some(acc)
  };
  match t {
    PT::Leaf => Some(vec![V::Leaf]),
    PT::Tuple(ts) => {
      let parts: Option<Vec<Vec<V>>> = ts.iter().map(|x| values(d, x, depth - 1, cap)).collect();
      Some(product(parts?)?.into_iter().map(V::Prod).collect())
    }
    PT::Struct(i) => {
      let parts: Option<Vec<Vec<V>>> = d.structs[*i].iter().map(|(_, x)| values(d, x, depth - 1, cap)).collect();
      Some(product(parts?)?.into_iter().map(V::Prod).collect())
    }
    PT::Enum(_) | PT::Opt(_) => {
      let mut out = vec![];
      for (tag, payload) in variants_of(d, t).unwrap() {
        let parts: Option<Vec<Vec<V>>> = payload.iter().map(|x| values(d, x, depth - 1, cap)).collect();
        for vs in product(parts?)? {
          out.push(V::Variant(tag.clone(), vs));
          if out.len() > cap {
            return None;
          }
        }
      }
      Some(out)
    }
  }
}

/// Some(true/false) or None when a constructor pattern meets an opaque (too deep) value
fn matches(d: &Decls, p: &P, v: &V, t: &PT) -> Option<bool> {
  match p {
    P::Wild | P::Var(_) => Some(true),
    P::Or(ps) => {
      let mut unknown = false;
      for q in ps {
        match matches(d, q, v, t) {
          Some(true) => return Some(true),
          Some(false) => {}
          None => unknown = true,
        }
      }
      if unknown { None } else { Some(false) }
    }
    _ if *v == V::Opaque => None,
    P::Variant(tag, ps) => {
      let V::Variant(vt, vs) = v else { return Some(false) };
      if vt != tag {
        return Some(false);
      }
      let payload = variants_of(d, t)?.into_iter().find(|(n, _)| n == tag)?.1;
      all_match(d, ps.iter().collect(), vs, &payload)
    }
    P::Tuple(ps) => {
      let V::Prod(vs) = v else { return Some(false) };
      let ts: Vec<PT> = match t {
        PT::Tuple(ts) => ts.clone(),
        PT::Struct(i) => d.structs[*i].iter().map(|(_, x)| x.clone()).collect(),
        _ => return Some(false),
      };
      all_match(d, ps.iter().collect(), vs, &ts)
    }
    P::Struct(fs) => {
      let V::Prod(vs) = v else { return Some(false) };
      let PT::Struct(i) = t else { return Some(false) };
      let mut unknown = false;
      for (f, q) in fs {
        let idx = d.structs[*i].iter().position(|(n, _)| n == f)?;
        match matches(d, q, &vs[idx], &d.structs[*i][idx].1) {
          Some(false) => return Some(false),
          None => unknown = true,
          Some(true) => {}
        }
      }
      if unknown { None } else { Some(true) }
    }
  }
}

fn all_match(d: &Decls, ps: Vec<&P>, vs: &[V], ts: &[PT]) -> Option<bool> {
  if ps.len() != vs.len() || ps.len() != ts.len() {
    return Some(false);
  }
  let mut unknown = false;
  for ((p, v), t) in ps.iter().zip(vs).zip(ts) {
    match matches(d, p, v, t) {
      Some(false) => return Some(false),
      None => unknown = true,
      Some(true) => {}
    }
  }
  if unknown { None } else { Some(true) }
}

// ------------------------------------------------------------------------------- generator

struct G<'t> {
  t: &'t mut Tape,
  d: Decls,
  counter: u32,
  /// the next pattern is a whole match arm (catch-alls are rarer there)
  top: bool,
  in_or: bool,
  /// variant names longer than the heap's inline-string capacity (15 bytes)
  long_names: bool,
}

impl<'t> G<'t> {
  fn ty(&mut self, depth: u32, self_enum: Option<usize>) -> PT {
    let ne = self.d.enums.len();
    let ns = self.d.structs.len();
    let w = [4, if ne > 0 { 5 } else { 0 }, if ns > 0 { 3 } else { 0 }, if depth < 2 { 2 } else { 0 }, if depth < 2 { 3 } else { 0 }, if self_enum.is_some() { 3 } else { 0 }];
    match self.t.weighted(&w) {
      0 => PT::Leaf,
      1 => PT::Enum(self.t.choose(ne)),
      2 => PT::Struct(self.t.choose(ns)),
      3 => {
        let n = 2 + self.t.choose(2);
        PT::Tuple((0..n).map(|_| self.ty(depth + 1, None)).collect())
      }
      4 => {
        self.d.uses_opt = true;
        PT::Opt(Box::new(self.ty(depth + 1, None)))
      }
      _ => PT::Enum(self_enum.unwrap()),
    }
  }

  fn decls(&mut self) {
    let n = 1 + self.t.choose(4);
    for _ in 0..n {
      if self.t.bool(2, 3) {
        let idx = self.d.enums.len();
        let nv = if self.t.bool(1, 8) { 1 } else { 2 + self.t.choose(4) };
        let mut vs = vec![];
        // reserve the slot so that recursive references are valid
        self.d.enums.push(vec![]);
        for k in 0..nv {
          let arity = if k == 0 { self.t.choose(2) } else { self.t.choose(4) };
          let payload: Vec<PT> = (0..arity).map(|_| self.ty(0, if k > 0 { Some(idx) } else { None })).collect();
          vs.push((if self.long_names { format!("VariantWithALongName{idx}x{k}") } else { format!("K{idx}x{k}") }, payload));
        }
        self.d.enums[idx] = vs;
      } else {
        let idx = self.d.structs.len();
        let nf = 1 + self.t.choose(4);
        let fs: Vec<(String, PT)> = (0..nf).map(|k| (format!("f{k}"), self.ty(0, None))).collect();
        // reject direct cycles through structs: fields only mention earlier declarations (guaranteed by ty())
        self.d.structs.push(fs);
        let _ = idx;
      }
    }
  }

  fn var(&mut self) -> P {
    self.counter += 1;
    P::Var(format!("b{}", self.counter))
  }

  /// `binders`: whether variable patterns may be used (not inside or-patterns)
  fn pat(&mut self, t: &PT, depth: u32, binders: bool) -> P {
    let leafy = depth == 0 || matches!(t, PT::Leaf);
    let catch_all = if self.top { self.t.bool(1, 12) } else { self.t.bool(1, 4) };
    self.top = false;
    if leafy || catch_all {
      return if binders && self.t.bool(1, 2) { self.var() } else { P::Wild };
    }
    if depth >= 2 && !self.in_or && self.t.bool(1, 6) {
      // or-pattern: alternatives without binders, themselves constructor patterns most of the time
      let n = 2 + self.t.choose(2);
      let alts = (0..n)
        .map(|_| {
          self.in_or = true;
          self.top = true;
          self.pat(t, depth - 1, false)
        })
        .collect();
      self.in_or = false;
      return P::Or(alts);
    }
    self.in_or = false;
    match t {
      PT::Leaf => P::Wild,
      PT::Tuple(ts) => P::Tuple(ts.iter().map(|x| self.pat(x, depth - 1, binders)).collect()),
      PT::Struct(i) => {
        let fs = self.d.structs[*i].clone();
        let mut subs: Vec<(String, P)> = fs.iter().map(|(f, x)| (f.clone(), self.pat(x, depth - 1, binders))).collect();
        // fields may be written in any order
        if subs.len() >= 2 && self.t.bool(1, 2) {
          let k = self.t.choose(subs.len());
          subs.rotate_left(k);
          if self.t.bool(1, 2) {
            subs.reverse();
          }
        }
        P::Struct(subs)
      }
      PT::Enum(_) | PT::Opt(_) => {
        let vs = variants_of(&self.d, t).unwrap();
        let (tag, payload) = vs[self.t.choose(vs.len())].clone();
        P::Variant(tag, payload.iter().map(|x| self.pat(x, depth - 1, binders)).collect())
      }
    }
  }
}

fn render(d: &Decls, scrut: &PT, kind: &str, pats: &[P]) -> String {
  let mut s = String::from("import { Pair, Triple } from std.tuples;\n\n");
  if d.uses_opt {
    s.push_str("class Opt<T>(Non, Som(T)) {}\n");
  }
  for (i, vs) in d.enums.iter().enumerate() {
    let body: Vec<String> = vs.iter().map(|(n, ts)| if ts.is_empty() { n.clone() } else { format!("{n}({})", ts.iter().map(ty_str).collect::<Vec<_>>().join(", ")) }).collect();
    s.push_str(&format!("class E{i}({}) {{}}\n", body.join(", ")));
  }
  for (i, fs) in d.structs.iter().enumerate() {
    let body: Vec<String> = fs.iter().map(|(n, t)| format!("val {n}: {}", ty_str(t))).collect();
    s.push_str(&format!("class S{i}({}) {{}}\n", body.join(", ")));
  }
  s.push_str("\nclass Main {\n");
  let body = match kind {
    "match" => {
      let arms: Vec<String> = pats.iter().enumerate().map(|(i, p)| format!("      {} -> {},", pat_str(p), i)).collect();
      format!("match v {{\n{}\n    }}", arms.join("\n"))
    }
    "let" => format!("{{\n      let {} = v;\n      0\n    }}", pat_str(&pats[0])),
    _ => format!("if let {} = v {{ 1 }} else {{ 2 }}", pat_str(&pats[0])),
  };
  s.push_str(&format!("  function test(v: {}): int =\n    {}\n\n  function main(): unit = {{  }}\n}}\n", ty_str(scrut), body));
  s
}

/// The same case spread over two modules: module `Decls` declares the types and a factory whose
/// result type is the scrutinee type; the judged module declares *decoy* enums with the same class
/// names (one differently named variant each), imports only the factory and receives the scrutinee
/// by inference. The verdict must be the one for the scrutinee's real type.
fn render_shadow(d: &Decls, scrut: &PT, kind: &str, pats: &[P]) -> (String, String) {
  let mut decls = String::from("import { Pair, Triple } from std.tuples;\n\n");
  if d.uses_opt {
    decls.push_str("class Opt<T>(Non, Som(T)) {}\n");
  }
  for (i, vs) in d.enums.iter().enumerate() {
    let body: Vec<String> = vs.iter().map(|(n, ts)| if ts.is_empty() { n.clone() } else { format!("{n}({})", ts.iter().map(ty_str).collect::<Vec<_>>().join(", ")) }).collect();
    decls.push_str(&format!("class E{i}({}) {{}}\n", body.join(", ")));
  }
  for (i, fs) in d.structs.iter().enumerate() {
    let body: Vec<String> = fs.iter().map(|(n, t)| format!("val {n}: {}", ty_str(t))).collect();
    decls.push_str(&format!("class S{i}({}) {{}}\n", body.join(", ")));
  }
  decls.push_str(&format!("\nclass Mk {{\n  function get(): {} = Mk.get()\n}}\n", ty_str(scrut)));
  let mut s = String::from("import { Mk } from Decls;\n\n");
  for i in 0..d.enums.len() {
    // decoys: fewer variants for even, more for odd indices, none of them shared with the real enum
    if i % 2 == 0 {
      s.push_str(&format!("class E{i}(Zq{i}) {{}}\n"));
    } else {
      s.push_str(&format!("class E{i}(Zq{i}, Zr{i}(int), Zs{i}, Zt{i}, Zu{i}, Zv{i}) {{}}\n"));
    }
  }
  s.push_str("\nclass Main {\n");
  let body = match kind {
    "match" => {
      let arms: Vec<String> = pats.iter().enumerate().map(|(i, p)| format!("      {} -> {},", pat_str(p), i)).collect();
      format!("match v {{\n{}\n    }}", arms.join("\n"))
    }
    "let" => format!("{{\n      let {} = v;\n      0\n    }}", pat_str(&pats[0])),
    _ => format!("if let {} = v {{ 1 }} else {{ 2 }}", pat_str(&pats[0])),
  };
  s.push_str(&format!("  function test(): int = {{\n    let v = Mk.get();\n    {}\n  }}\n\n  function main(): unit = {{  }}\n}}\n", body));
  (s, decls)
}

fn pt_json(t: &PT) -> Value {
  match t {
    PT::Leaf => json!("leaf"),
    PT::Enum(i) => json!({"enum": i}),
    PT::Struct(i) => json!({"struct": i}),
    PT::Tuple(ts) => json!({"tuple": ts.iter().map(pt_json).collect::<Vec<_>>()}),
    PT::Opt(t) => json!({"opt": pt_json(t)}),
  }
}
fn pt_of(v: &Value) -> PT {
  if v == "leaf" {
    return PT::Leaf;
  }
  if let Some(i) = v.get("enum") {
    return PT::Enum(i.as_u64().unwrap_or(0) as usize);
  }
  if let Some(i) = v.get("struct") {
    return PT::Struct(i.as_u64().unwrap_or(0) as usize);
  }
  if let Some(ts) = v.get("tuple") {
    return PT::Tuple(ts.as_array().cloned().unwrap_or_default().iter().map(pt_of).collect());
  }
  PT::Opt(Box::new(pt_of(&v["opt"])))
}
fn p_json(p: &P) -> Value {
  match p {
    P::Wild => json!("_"),
    P::Var(n) => json!({"var": n}),
    P::Variant(t, ps) => json!({"variant": t, "sub": ps.iter().map(p_json).collect::<Vec<_>>()}),
    P::Tuple(ps) => json!({"tuple": ps.iter().map(p_json).collect::<Vec<_>>()}),
    P::Struct(fs) => json!({"struct": fs.iter().map(|(f, p)| json!([f, p_json(p)])).collect::<Vec<_>>()}),
    P::Or(ps) => json!({"or": ps.iter().map(p_json).collect::<Vec<_>>()}),
  }
}
fn p_of(v: &Value) -> P {
  if v == "_" {
    return P::Wild;
  }
  if let Some(n) = v.get("var") {
    return P::Var(n.as_str().unwrap_or("b").to_string());
  }
  if let Some(t) = v.get("variant") {
    return P::Variant(t.as_str().unwrap_or("").to_string(), v["sub"].as_array().cloned().unwrap_or_default().iter().map(p_of).collect());
  }
  if let Some(ps) = v.get("tuple") {
    return P::Tuple(ps.as_array().cloned().unwrap_or_default().iter().map(p_of).collect());
  }
  if let Some(fs) = v.get("struct") {
    return P::Struct(fs.as_array().cloned().unwrap_or_default().iter().map(|x| (x[0].as_str().unwrap_or("").to_string(), p_of(&x[1]))).collect());
  }
  P::Or(v["or"].as_array().cloned().unwrap_or_default().iter().map(p_of).collect())
}

/// the checker's counterexample as a pattern of the harness
fn ce_of(desc: &Description, heap: &Heap) -> P {
  match desc {
    Description::WildcardPattern => P::Wild,
    Description::TuplePattern(ds) => P::Tuple(ds.iter().map(|d| ce_of(d, heap)).collect()),
    Description::VariantPattern(tag, ds) => P::Variant(tag.as_str(heap).to_string(), ds.iter().map(|d| ce_of(d, heap)).collect()),
    Description::OrPattern(ds) => P::Or(ds.iter().map(|d| ce_of(d, heap)).collect()),
    _ => P::Wild,
  }
}


/// one generated case (also used by C12 as a host with several diagnostics witnesses)
pub fn gen_case(t: &mut Tape) -> Value {
    let mut g = G { t, d: Decls { enums: vec![], structs: vec![], uses_opt: false }, counter: 0, top: false, in_or: false, long_names: false };
    g.long_names = g.t.bool(1, 4);
    g.decls();
    // scrutinee: prefer the last declared type, sometimes a tuple / Opt of declared types
    let scrut = match g.t.weighted(&[6, 2, 2]) {
      0 => {
        if !g.d.enums.is_empty() && (g.d.structs.is_empty() || g.t.bool(2, 3)) {
          // prefer the richer of two candidates
          let (a, b) = (g.t.choose(g.d.enums.len()), g.t.choose(g.d.enums.len()));
          PT::Enum(if g.d.enums[a].len() >= g.d.enums[b].len() { a } else { b })
        } else if !g.d.structs.is_empty() {
          PT::Struct(g.t.choose(g.d.structs.len()))
        } else {
          PT::Leaf
        }
      }
      1 => {
        let a = g.ty(1, None);
        let b = g.ty(1, None);
        PT::Tuple(vec![a, b])
      }
      _ => {
        g.d.uses_opt = true;
        let a = g.ty(1, None);
        PT::Opt(Box::new(a))
      }
    };
    let kind = ["match", "match", "match", "let", "if-let"][g.t.choose(5)];
    let depth = if kind == "match" { 2 + g.t.choose(3) as u32 } else { 1 + g.t.choose(4) as u32 };
    let n = if kind == "match" { 1 + g.t.choose(6) } else { 1 };
    let mut pats: Vec<P> = (0..n)
      .map(|_| {
        g.top = kind == "match";
        g.pat(&scrut, depth, true)
      })
      .collect();
    if kind == "match" && g.t.bool(1, 8) {
      pats.push(P::Wild);
    }
    // 1-2 arms per variant with generated sub-patterns (every constructor mentioned, several incomplete)
    if kind == "match" && g.t.bool(1, 3) {
      if let Some(vs) = variants_of(&g.d, &scrut) {
        pats.clear();
        for (tag, payload) in vs {
          for _ in 0..1 + g.t.choose(2) {
            let sub: Vec<P> = payload.iter().map(|x| g.pat(x, depth, true)).collect();
            pats.push(P::Variant(tag.clone(), sub));
          }
        }
      }
    }
    // one arm per variant on top (raises the share of exhaustive matrices)
    if kind == "match" && g.t.bool(1, 3) {
      if let Some(vs) = variants_of(&g.d, &scrut) {
        for (tag, payload) in vs {
          if g.t.bool(4, 5) {
            pats.push(P::Variant(tag, payload.iter().map(|_| P::Wild).collect()));
          }
        }
      }
    }
    let d = g.d.clone();
    // (decided last, so that the other choices of a tape do not depend on it)
    let shadow = !d.enums.is_empty() && g.t.bool(1, 8);
    json!({
      "shadow": shadow,
      "enums": d.enums.iter().map(|vs| vs.iter().map(|(n, ts)| json!([n, ts.iter().map(pt_json).collect::<Vec<_>>()])).collect::<Vec<_>>()).collect::<Vec<_>>(),
      "structs": d.structs.iter().map(|fs| fs.iter().map(|(n, t)| json!([n, pt_json(t)])).collect::<Vec<_>>()).collect::<Vec<_>>(),
      "uses_opt": d.uses_opt,
      "scrutinee": pt_json(&scrut),
      "kind": kind,
      "patterns": pats.iter().map(p_json).collect::<Vec<_>>(),
      "text": render(&d, &scrut, kind, &pats),
    })
}

impl Prop for C07 {
  fn id(&self) -> &'static str {
    "C07"
  }
  fn rule(&self) -> String {
    "1-4 generated type declarations (enums with 1-5 variants of arity 0-3, structs with 1-4 fields, pairs / triples, a generic Opt<T>, directly recursive and mutually nested types) and 1-6 generated patterns over a chosen scrutinee type (variant, tuple, struct with `as`, wildcard, variable, or-patterns at any depth, nesting <= 4), rendered as a match, a destructuring let or an if-let; oracle: brute-force model - all values of the scrutinee type to the patterns' depth + 1 (leaves abstract, universe capped at 50 000) are matched with the harness's own matcher: the checker must report non-exhaustiveness iff some value is unmatched, its counterexample must denote >=1 enumerated value none of which any arm matches, and an if-let pattern must be flagged irrefutable iff it matches every value; non-trivial = >=2 arms (or a let / if-let with a constructor pattern), >=1 constructor pattern and a universe of >=3 values; distinct = hash of the rendered program".into()
  }
  fn assumptions(&self) -> Vec<String> {
    vec![
      "int / Str / bool have no literal patterns in this implementation, so leaves behave as one abstract value".into(),
      "struct patterns mention every field (the checker requires it); or-pattern alternatives bind no variables".into(),
      "any diagnostic other than non-exhaustive-match / useless-pattern on a generated case is a generator bug and is reported as exit 2, not as a verdict".into(),
    ]
  }
  fn params(&self, tier: Tier) -> Params {
    match tier {
      Tier::Quick => Params { cases: 30_000, tape_len: 3000, workers: 14, stack_mb: 16, worker_timeout_s: 1200, shrink_iters: 4000 },
      Tier::Thorough => Params { cases: 600_000, tape_len: 4000, workers: 16, stack_mb: 16, worker_timeout_s: 5 * 3600, shrink_iters: 4000 },
    }
  }
  fn generate(&self, t: &mut Tape, _tier: Tier) -> Value {
    gen_case(t)
  }

  fn check(&self, art: &Value) -> Outcome {
    let mut out = Outcome::default();
    let d = Decls {
      enums: art["enums"].as_array().cloned().unwrap_or_default().iter().map(|vs| vs.as_array().cloned().unwrap_or_default().iter().map(|x| (x[0].as_str().unwrap_or("").to_string(), x[1].as_array().cloned().unwrap_or_default().iter().map(pt_of).collect())).collect()).collect(),
      structs: art["structs"].as_array().cloned().unwrap_or_default().iter().map(|fs| fs.as_array().cloned().unwrap_or_default().iter().map(|x| (x[0].as_str().unwrap_or("").to_string(), pt_of(&x[1]))).collect()).collect(),
      uses_opt: art["uses_opt"].as_bool().unwrap_or(false),
    };
    let scrut = pt_of(&art["scrutinee"]);
    let kind = art["kind"].as_str().unwrap_or("match").to_string();
    let pats: Vec<P> = art["patterns"].as_array().cloned().unwrap_or_default().iter().map(p_of).collect();
    // the text is re-rendered from the structured artifact so that both always agree
    let shadow = art["shadow"].as_bool().unwrap_or(false);
    let (text, decls_text) = if shadow {
      let (m, dm) = render_shadow(&d, &scrut, &kind, &pats);
      (m, Some(dm))
    } else {
      (render(&d, &scrut, &kind, &pats), None)
    };
    out.key = fnv(text.as_bytes());
    let depth = pats.iter().map(pat_depth).max().unwrap_or(0) + 1;
    let Some(universe) = values(&d, &scrut, depth, 50_000) else {
      return Outcome::discarded("universe-exceeds-cap");
    };
    // model verdict
    let mut unmatched: Vec<&V> = vec![];
    for v in &universe {
      let mut hit = false;
      for p in &pats {
        match matches(&d, p, v, &scrut) {
          Some(true) => {
            hit = true;
            break;
          }
          Some(false) => {}
          None => return Outcome::discarded("INFRA:enumeration-depth-too-small"),
        }
      }
      if !hit {
        unmatched.push(v);
      }
    }
    let exhaustive = unmatched.is_empty();
    // the checker
    let mut heap = Heap::new();
    let mr = heap.alloc_module_reference_from_string_vec(vec!["M".into()]);
    let mut es = ErrorSet::new();
    let mut parsed = HashMap::new();
    let user: Vec<&str> = [Some(text.as_str()), decls_text.as_deref()].into_iter().flatten().collect();
    for (name, src) in crate::model::front::needed_std(&mut heap, &user) {
      let smr = heap.alloc_module_reference_from_string_vec(name);
      let mut ignore = ErrorSet::new();
      parsed.insert(smr, samlang_parser::parse_source_module_from_text(&src, smr, &mut heap, &mut ignore));
    }
    if let Some(dt) = &decls_text {
      let dmr = heap.alloc_module_reference_from_string_vec(vec!["Decls".into()]);
      let mut ignore = ErrorSet::new();
      parsed.insert(dmr, samlang_parser::parse_source_module_from_text(dt, dmr, &mut heap, &mut ignore));
      out.label("host:scrutinee-type-of-another-module-shadowed-by-same-named-local-enums");
    }
    let module = match guard(|| samlang_parser::parse_source_module_from_text(&text, mr, &mut heap, &mut es)) {
      Ok(m) => m,
      Err(_) => return Outcome::discarded("parser-panics(C05)"),
    };
    parsed.insert(mr, module);
    if guard(|| samlang_checker::type_check_sources(&parsed, &mut es)).is_err() {
      return Outcome::discarded("checker-panics(C05)");
    }
    let mut non_exhaustive: Option<P> = None;
    let mut useless_only = false;
    for e in es.errors() {
      if e.location.module_reference != mr {
        continue;
      }
      match &e.detail {
        ErrorDetail::NonExhaustiveMatch { counter_example } => non_exhaustive = Some(ce_of(counter_example, &heap)),
        ErrorDetail::UselessPattern { only_pattern } => {
          if *only_pattern {
            useless_only = true;
          }
        }
        other => {
          let msg = format!("{:?}", std::mem::discriminant(other));
          let rendered = e.to_ide_format(&heap, &HashMap::new()).ide_error;
          return Outcome::discarded(format!("INFRA:unexpected-diagnostic:{}:{}", msg, crate::engine::msg_class(&rendered)));
        }
      }
    }
    let ctor = pats.iter().any(|p| pat_depth(p) > 0);
    out.nontrivial = ctor && universe.len() >= 3 && (kind != "match" || pats.len() >= 2);
    out.label(format!("kind:{kind}/{}", if exhaustive { "exhaustive" } else { "non-exhaustive" }));
    if text.contains(" | ") {
      out.label("feature:or-pattern");
    }
    if pats.iter().any(|p| pat_str(p).contains('{')) {
      out.label("feature:struct-pattern");
    }
    if depth >= 4 {
      out.label("feature:depth>=3");
    }
    out.label(format!("universe:{}", if universe.len() < 10 { "<10" } else if universe.len() < 100 { "10-99" } else if universe.len() < 1000 { "100-999" } else { ">=1000" }));
    out.sample = Some(json!({"program": super::fmt_common::short(&text, 700), "model_says": if exhaustive { "exhaustive" } else { "non-exhaustive" }, "universe": universe.len()}));
    let detail = |what: &str| format!("{what}\nuniverse: {} values, first unmatched: {:?}\n{}", universe.len(), unmatched.first(), text);
    match kind.as_str() {
      "match" | "let" => {
        match (&non_exhaustive, exhaustive) {
          (None, true) => {}
          (Some(_), true) => out.fail(format!("spurious-non-exhaustive-error/{kind}"), detail("every value is matched by some arm, but the checker reports a non-exhaustive match")),
          (None, false) => out.fail(format!("missed-non-exhaustiveness/{kind}"), detail("some value is matched by no arm, but the checker accepts")),
          (Some(ce), false) => {
            // the counterexample must denote >=1 value and none of them may be matched
            let mut denoted = 0;
            for v in &universe {
              match matches(&d, ce, v, &scrut) {
                Some(true) => {
                  denoted += 1;
                  if pats.iter().any(|p| matches(&d, p, v, &scrut) == Some(true)) {
                    out.fail(format!("counterexample-is-matched/{kind}"), detail(&format!("the reported counterexample `{}` denotes the value {:?}, which an arm matches", pat_str(ce), v)));
                    return out;
                  }
                }
                Some(false) => {}
                None => {
                  out.label("counterexample:deeper-than-enumeration");
                  return out;
                }
              }
            }
            if denoted == 0 {
              out.fail(format!("counterexample-denotes-no-value/{kind}"), detail(&format!("the reported counterexample `{}` denotes no value of the type", pat_str(ce))));
            }
          }
        }
      }
      _ => {
        let irrefutable = universe.iter().all(|v| matches(&d, &pats[0], v, &scrut) == Some(true));
        if irrefutable != useless_only {
          out.fail(
            if irrefutable { "missed-irrefutable-if-let" } else { "spurious-irrefutable-if-let" },
            detail(&format!("model: the if-let pattern matches {} value; checker flags it as irrefutable: {}", if irrefutable { "every" } else { "not every" }, useless_only)),
          );
        }
        if non_exhaustive.is_some() {
          out.fail("non-exhaustive-error-on-if-let", detail("an if-let reported a non-exhaustive match"));
        }
      }
    }
    out
  }
}
