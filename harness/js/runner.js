// Persistent node worker for the samlang verification harness.
// Protocol: one JSON request per line on stdin, one JSON response per line on stdout.
//   {id, kind: "wasm", wasm_b64, loader, main}   run emitted module through the emitted loader (unmodified)
//   {id, kind: "ts", code, timeout_ms}           strip types, syntax-check, run in a fresh context
// Response: {id, lines: [...], end: {type, message?}}
//   type: ok | panic | trap | stack | compile-error | link-error | syntax-error | timeout | other
'use strict';
const vm = require('vm');
const readline = require('readline');
const { stripTypeScriptTypes } = require('node:module');

const MAX_LINES = 20000;

function classify(e) {
  if (e instanceof WebAssembly.RuntimeError) return { type: 'trap', message: String(e.message) };
  if (e instanceof WebAssembly.CompileError) return { type: 'compile-error', message: String(e.message) };
  if (e instanceof WebAssembly.LinkError) return { type: 'link-error', message: String(e.message) };
  if (e instanceof RangeError && /call stack/i.test(String(e.message))) return { type: 'stack', message: String(e.message) };
  if (e && e.code === 'ERR_SCRIPT_EXECUTION_TIMEOUT') return { type: 'timeout', message: String(e.message) };
  if (e instanceof SyntaxError) return { type: 'syntax-error', message: String(e.message) };
  if (e && e.name === 'RangeError' && /call stack/i.test(String(e.message))) return { type: 'stack', message: String(e.message) };
  if (e && e.name === 'SyntaxError') return { type: 'syntax-error', message: String(e.message) };
  if (e instanceof Error || (e && e.name === 'Error')) return { type: 'panic', message: String(e.message) };
  return { type: 'other', message: String(e && e.name) + ': ' + String(e && e.message) };
}

function runWasm(req) {
  const lines = [];
  const realLog = console.log;
  let end;
  try {
    const bytes = Buffer.from(req.wasm_b64, 'base64');
    // evaluate the emitted loader source exactly as `require` would
    const mod = { exports: {} };
    const fn = new Function('module', 'exports', 'require', req.loader);
    fn(mod, mod.exports, require);
    console.log = (...a) => { if (lines.length < MAX_LINES) lines.push(a.map(String).join(' ')); };
    const api = mod.exports(bytes);
    if (typeof api[req.main] !== 'function') {
      end = { type: 'link-error', message: 'no export ' + req.main };
    } else {
      api[req.main]();
      end = { type: 'ok' };
    }
  } catch (e) {
    end = classify(e);
  } finally {
    console.log = realLog;
  }
  return { id: req.id, lines, end };
}

function runTs(req) {
  const lines = [];
  let end;
  let js;
  try {
    js = stripTypeScriptTypes(req.code);
  } catch (e) {
    return { id: req.id, lines, end: { type: 'syntax-error', message: 'strip: ' + String(e && e.message) } };
  }
  let script;
  try {
    script = new vm.Script(js, { filename: 'emitted.ts' });
  } catch (e) {
    return { id: req.id, lines, end: { type: 'syntax-error', message: String(e && e.message) } };
  }
  try {
    const sandbox = { console: { log: (...a) => { if (lines.length < MAX_LINES) lines.push(a.map(String).join(' ')); } } };
    script.runInNewContext(sandbox, { timeout: req.timeout_ms || 10000 });
    end = { type: 'ok' };
  } catch (e) {
    end = classify(e);
  }
  return { id: req.id, lines, end };
}

const rl = readline.createInterface({ input: process.stdin, terminal: false });
rl.on('line', (line) => {
  if (!line.trim()) return;
  let req;
  try { req = JSON.parse(line); } catch (e) { process.stdout.write(JSON.stringify({ id: -1, lines: [], end: { type: 'other', message: 'bad request' } }) + '\n'); return; }
  let resp;
  try {
    resp = req.kind === 'wasm' ? runWasm(req) : runTs(req);
  } catch (e) {
    resp = { id: req.id, lines: [], end: { type: 'other', message: 'runner: ' + String(e && e.message) } };
  }
  process.stdout.write(JSON.stringify(resp) + '\n');
});
rl.on('close', () => process.exit(0));
