//! Language-server histories (G6): C10 (incremental diagnostics = from-scratch diagnostics) and
//! C11 (no history of edits and queries aborts the server).

use crate::engine::{Outcome, Params, Prop, Tape, Tier, fnv, guard, panic_sig};
use samlang_ast::{Location, Position};
use samlang_heap::{Heap, ModuleReference};
use samlang_services::server_state::ServerState;
use samlang_services::{completion, query, rewrite};
use serde_json::{Value, json};
use std::collections::{BTreeMap, HashMap};

pub struct C10;
pub struct C11;

// ------------------------------------------------------------------------------- generator

struct Names {
  long: bool,
}

impl Names {
  fn module(&self, i: usize) -> Vec<String> {
    let base: [&[&str]; 6] = [&["A"], &["B"], &["lib", "C"], &["lib", "D"], &["E"], &["Ghost"]];
    let long: [&[&str]; 6] = [&["AModuleWithAVeryLongName"], &["BModuleWithAVeryLongName"], &["library", "CModuleWithAVeryLongName"], &["library", "DModuleWithAVeryLongName"], &["EModuleWithAVeryLongName"], &["GhostModuleWithAVeryLongName"]];
    (if self.long { long[i % 6] } else { base[i % 6] }).iter().map(|s| s.to_string()).collect()
  }
  fn class(&self, c: usize) -> String {
    if self.long { format!("LongClassIdentifierNumber{c}") } else { format!("K{c}") }
  }
  fn iface(&self, c: usize) -> String {
    if self.long { format!("LongInterfaceIdentifierNumber{c}") } else { format!("I{c}") }
  }
  fn make(&self) -> &'static str {
    if self.long { "makeANewInstanceOfThisClass" } else { "make" }
  }
  fn get(&self) -> &'static str {
    if self.long { "getTheStoredIntegerValue" } else { "get" }
  }
  fn field(&self) -> &'static str {
    if self.long { "theStoredIntegerValueField" } else { "v" }
  }
  fn via(&self, c: usize) -> String {
    if self.long { format!("viaTheImportedClassNumber{c}") } else { format!("via{c}") }
  }
  fn local(&self, i: usize) -> String {
    if self.long { format!("aLocalVariableWithALongName{i}") } else { format!("x{i}") }
  }
}

/// one module's text: imports of other pool modules, one or two classes whose signatures other
/// modules depend on, optional static errors and syntax garbage
fn gen_text(t: &mut Tape, n: &Names) -> String {
  match t.weighted(&[30, 1, 1, 1, 1]) {
    1 => return String::new(),
    2 => return "// only a comment\n".into(),
    3 => return "class {\n".into(),
    4 => return format!("import {{ {} }} from\nclass", n.class(0)),
    _ => {}
  }
  let mut s = String::new();
  let n_imports = t.choose(4);
  let mut imported: Vec<usize> = vec![];
  let mut imported_ifaces: Vec<usize> = vec![];
  for _ in 0..n_imports {
    let target = t.choose(6);
    let c1 = t.choose(6);
    let mut names = vec![n.class(c1)];
    imported.push(c1);
    if t.bool(1, 4) {
      let c2 = t.choose(6);
      if c2 != c1 {
        names.push(n.class(c2));
        imported.push(c2);
      }
    }
    if t.bool(1, 4) {
      names.push(n.iface(c1));
      imported_ifaces.push(c1);
    }
    s.push_str(&format!("import {{ {} }} from {};\n", names.join(", "), n.module(target).join(".")));
  }
  if t.bool(1, 12) {
    s.push_str("import { Oops } from no.such.Module;\n");
  }
  s.push('\n');
  let n_classes = 1 + t.choose(2);
  for _ in 0..n_classes {
    let c = t.choose(6);
    let cls = n.class(c);
    let private = t.bool(1, 8);
    if t.bool(1, 6) {
      s.push_str("/** documented */\n");
    }
    // an interface other modules implement: its member list decides their diagnostics
    if t.bool(1, 4) {
      let sig = match t.weighted(&[4, 2, 2]) {
        0 => format!("  method {}(): int\n", n.get()),
        1 => format!("  method {}(): bool\n", n.get()),
        _ => format!("  method {}(): int\n\n  method extraMemberOfTheInterface(): int\n", n.get()),
      };
      s.push_str(&format!("interface {} {{\n{sig}}}\n\n", n.iface(c)));
    }
    let implements = if !imported_ifaces.is_empty() && t.bool(1, 2) { format!(" : {}", n.iface(imported_ifaces[t.choose(imported_ifaces.len())])) } else { String::new() };
    s.push_str(&format!("{}class {cls}(val {}: int){implements} {{\n", if private { "private " } else { "" }, n.field()));
    // doc comments on members: hover in an importing module shows them
    let doc = |t: &mut Tape, s: &mut String| {
      match t.weighted(&[4, 2, 1]) {
        1 => s.push_str("  /** documented member */\n"),
        2 => s.push_str("  /** first doc */\n  // a line comment\n  /** second doc with a longer text */\n"),
        _ => {}
      }
    };
    doc(t, &mut s);
    match t.weighted(&[6, 2, 1]) {
      0 => s.push_str(&format!("  function {}(): {cls} = {cls}.init(0)\n\n", n.make())),
      1 => s.push_str(&format!("  function {}(): int = 0\n\n", n.make())),
      _ => {}
    }
    doc(t, &mut s);
    match t.weighted(&[6, 2, 1]) {
      0 => s.push_str(&format!("  method {}(): int = this.{}\n\n", n.get(), n.field())),
      1 => s.push_str(&format!("  method {}(): bool = true\n\n", n.get())),
      _ => {}
    }
    for (k, j) in imported.clone().into_iter().enumerate() {
      let other = n.class(j);
      match t.weighted(&[3, 3, 2, 2, 1]) {
        0 => s.push_str(&format!("  function {}(): {other} = {other}.{}()\n\n", n.via(j), n.make())),
        1 => s.push_str(&format!("  function use{k}(): int = {other}.{}().{}()\n\n", n.make(), n.get())),
        2 => {
          let j2 = t.choose(6);
          s.push_str(&format!("  function deep{k}(): int = {other}.{}().{}()\n\n", n.via(j2), n.get()));
        }
        3 => {
          let (a, b) = (n.local(0), n.local(1));
          s.push_str(&format!("  function local{k}({a}: {other}): int = {{\n    let {b} = {a}.{}();\n    {b} + 1\n  }}\n\n", n.get()));
        }
        _ => s.push_str(&format!("  function missing{k}(): int = {other}.noSuchMember()\n\n")),
      }
    }
    // a class used without (necessarily) being imported: `Cannot resolve class`, for which another
    // pool module may offer an auto-import quick fix
    if t.bool(1, 4) {
      let c = t.choose(6);
      s.push_str(&format!("  function forgot{c}(): int = {}.{}().{}()\n\n", n.class(c), n.make(), n.get()));
    }
    match t.weighted(&[8, 1, 1, 1]) {
      1 => s.push_str("  function bad(): int = true\n\n"),
      2 => s.push_str(&format!("  function unbound(): int = {}\n\n", n.local(7))),
      3 => s.push_str(&format!("  function lambda(): int = {{\n    let {f} = ({x}: int) -> {x} + 1;\n    {f}(2)\n  }}\n\n", f = n.local(2), x = n.local(3))),
      _ => {}
    }
    s.push_str("}\n\n");
  }
  if t.bool(1, 15) {
    s.push_str("}}} garbage\n");
  }
  s
}

fn gen_history(t: &mut Tape, with_queries: bool, max_ops: usize) -> Value {
  let n = Names { long: t.bool(1, 2) };
  let mut live: Vec<usize> = vec![];
  let mut initial = vec![];
  for i in 0..6 {
    if i < 5 && t.bool(1, 2) {
      live.push(i);
      initial.push(json!({"name": n.module(i), "text": gen_text(t, &n)}));
    }
  }
  let mut texts: HashMap<usize, String> = initial.iter().zip(&live).map(|(v, i)| (*i, v["text"].as_str().unwrap_or("").to_string())).collect();
  let n_ops = 1 + t.choose(max_ops);
  let mut ops = vec![];
  for _ in 0..n_ops {
    let kind = if with_queries { t.weighted(&[5, 2, 2, 1, 1, 14, 2]) } else { t.weighted(&[5, 2, 2, 1, 1, 0, 3]) };
    match kind {
      0 | 1 => {
        let count = if kind == 0 { 1 } else { 2 + t.choose(2) };
        let mut mods = vec![];
        let mut batch: Vec<usize> = vec![];
        for _ in 0..count {
          let m = t.choose(6);
          // one file event per module in a batch (what a client sends)
          if batch.contains(&m) {
            continue;
          }
          batch.push(m);
          let text = gen_text(t, &n);
          texts.insert(m, text.clone());
          if !live.contains(&m) {
            live.push(m);
          }
          mods.push(json!({"name": n.module(m), "text": text}));
        }
        ops.push(json!({"op": "update", "mods": mods}));
      }
      2 => {
        let a = if !live.is_empty() && t.bool(5, 6) { live[t.choose(live.len())] } else { t.choose(6) };
        let b = t.choose(6);
        if live.contains(&a) {
          live.retain(|x| *x != a);
          if !live.contains(&b) {
            live.push(b);
          }
          if let Some(x) = texts.remove(&a) {
            texts.insert(b, x);
          }
        }
        let old_text = texts.get(&b).cloned().filter(|_| !live.contains(&a)).unwrap_or_default();
        ops.push(json!({"op": "rename", "pairs": [[n.module(a), n.module(b)]]}));
        // requests that still name the file that was just renamed away, where its class names were
        if with_queries && !old_text.is_empty() && t.bool(1, 2) {
          let lines: Vec<&str> = old_text.split('\n').collect();
          let uppers: Vec<(usize, usize)> = lines.iter().enumerate().flat_map(|(li, l)| l.char_indices().filter(|(ci, c)| c.is_ascii_uppercase() && (*ci == 0 || !l.as_bytes()[ci - 1].is_ascii_alphanumeric())).map(move |(ci, _)| (li, ci))).collect();
          for _ in 0..1 + t.choose(3) {
            if uppers.is_empty() {
              break;
            }
            let (line, col) = uppers[t.choose(uppers.len())];
            let q = ["code-actions", "hover", "definition", "references", "rename", "format", "completion"][t.weighted(&[5, 2, 2, 2, 2, 2, 2])];
            ops.push(json!({"op": "query", "kind": q, "module": n.module(a), "line": line, "col": col, "end_col": col + 1 + if q == "code-actions" { 0 } else { t.choose(6) }, "new_name": "renamed"}));
          }
        }
      }
      3 => {
        let a = if !live.is_empty() && t.bool(5, 6) { live[t.choose(live.len())] } else { t.choose(6) };
        live.retain(|x| *x != a);
        texts.remove(&a);
        ops.push(json!({"op": "remove", "names": [n.module(a)]}));
      }
      6 => {
        // an edit that keeps every signature: lines in front of the text / after the first line, or a changed body
        if live.is_empty() {
          continue;
        }
        let m = live[t.choose(live.len())];
        let cur = texts.get(&m).cloned().unwrap_or_default();
        let pad = ["// moved\n", "\n", "/* a block\n   comment */\n"][t.choose(3)].repeat(1 + t.choose(3));
        let text = match t.weighted(&[3, 2, 2]) {
          0 => format!("{pad}{cur}"),
          1 => match cur.find('\n') {
            Some(i) => format!("{}{pad}{}", &cur[..=i], &cur[i + 1..]),
            None => format!("{cur}\n{pad}"),
          },
          _ => {
            if cur.contains(" = 0\n") { cur.replacen(" = 0\n", " =\n    0 + 0\n", 1) } else { cur.replacen(" = true\n", " =\n    !false\n", 1) }
          }
        };
        texts.insert(m, text.clone());
        ops.push(json!({"op": "update", "mods": [{"name": n.module(m), "text": text}], "layout_only": true}));
      }
      4 => {
        // re-send the current text of a live module (no-op edit)
        if let Some(m) = live.first().copied() {
          ops.push(json!({"op": "update", "mods": [{"name": n.module(m), "text": texts.get(&m).cloned().unwrap_or_default()}]}));
        }
      }
      _ => {
        let m = if !live.is_empty() && t.bool(7, 8) { live[t.choose(live.len())] } else { t.choose(6) };
        let text = texts.get(&m).cloned().unwrap_or_default();
        let lines: Vec<&str> = text.split('\n').collect();
        // positions: on an identifier character most of the time, anywhere (also outside the text) otherwise
        let (line, col) = if t.bool(3, 4) && !text.is_empty() {
          let idents: Vec<(usize, usize)> = lines.iter().enumerate().flat_map(|(li, l)| l.char_indices().filter(|(_, c)| c.is_ascii_alphanumeric()).map(move |(ci, _)| (li, ci))).collect();
          // member names (right after a `.`) are where cross-module lookups happen
          let members: Vec<(usize, usize)> = lines.iter().enumerate().flat_map(|(li, l)| l.char_indices().filter(|(_, c)| *c == '.').map(move |(ci, _)| (li, ci + 1))).collect();
          if !members.is_empty() && t.bool(1, 3) {
            members[t.choose(members.len())]
          } else if idents.is_empty() {
            (0, 0)
          } else {
            idents[t.choose(idents.len())]
          }
        } else {
          let line = t.choose(lines.len() + 3);
          (line, t.choose(lines.get(line).map(|l| l.len()).unwrap_or(0) + 4))
        };
        let q = ["hover", "completion", "signature", "definition", "references", "rename", "code-actions", "format", "folding"][t.choose(9)];
        // quick fixes are offered at the location of a diagnostic: aim code-action requests at class names
        let uppers: Vec<(usize, usize)> = lines.iter().enumerate().flat_map(|(li, l)| l.char_indices().filter(|(ci, c)| c.is_ascii_uppercase() && (*ci == 0 || !l.as_bytes()[ci - 1].is_ascii_alphanumeric())).map(move |(ci, _)| (li, ci))).collect();
        let (line, col) = if q == "code-actions" && !uppers.is_empty() && t.bool(3, 4) { uppers[t.choose(uppers.len())] } else { (line, col) };
        let new_name = ["renamed", "aRenamedVariableWithAVeryLongName", "x", "Bad", "", "with space"][t.weighted(&[4, 4, 2, 1, 1, 1])];
        // (a quick fix is offered only when the requested range lies inside the diagnostic's range)
        let width = if q == "code-actions" && t.bool(2, 3) { 1 } else { t.choose(6) };
        ops.push(json!({"op": "query", "kind": q, "module": n.module(m), "line": line, "col": col, "end_col": col + width, "new_name": new_name}));
      }
    }
  }
  json!({"initial": initial, "ops": ops})
}

/// histories over a G1 program (all language constructs) and the std modules it needs: requests at
/// identifier positions, updates with single-fault mutants of a module, renames and removals
fn gen_history_rich(t: &mut Tape, tier: Tier, max_ops: usize) -> Value {
  let mut cfg = crate::generators::progen::GenCfg::default();
  cfg.string_escapes = true;
  cfg.force_multi_module = t.bool(1, 2);
  if tier == Tier::Thorough {
    cfg.max_classes = 7;
    cfg.node_budget = 400;
  }
  let (mut ir, _) = crate::generators::progen::gen_program(t, cfg);
  let rendered = ir.render();
  let user_texts: Vec<&str> = rendered.iter().map(|(_, x)| x.as_str()).collect();
  let mut heap = Heap::new();
  let mut initial: Vec<Value> = crate::model::front::needed_std(&mut heap, &user_texts).into_iter().map(|(n, x)| json!({"name": n, "text": x})).collect();
  let mut texts: Vec<(Vec<String>, String)> = rendered.clone();
  for (n, x) in &rendered {
    initial.push(json!({"name": n, "text": x}));
  }
  let std_names: Vec<(Vec<String>, String)> = initial.iter().map(|m| (name_of(&m["name"]), m["text"].as_str().unwrap_or("").to_string())).filter(|(n, _)| n[0] == "std").collect();
  let n_ops = 1 + t.choose(max_ops);
  let mut ops = vec![];
  for _ in 0..n_ops {
    match t.weighted(&[3, 1, 1, 16]) {
      0 => {
        // a single-fault mutant (or the pristine text) of one module
        let k = t.choose(crate::generators::faults::fault_kinds().len());
        let mut mutant = ir.clone();
        let _ = crate::generators::faults::inject(&mut mutant, t, k);
        if t.bool(1, 3) {
          ir = mutant.clone();
        }
        let r = mutant.render();
        let i = t.choose(r.len());
        if let Some(slot) = texts.iter_mut().find(|(n, _)| *n == r[i].0) {
          slot.1 = r[i].1.clone();
        } else {
          texts.push(r[i].clone());
        }
        ops.push(json!({"op": "update", "mods": [{"name": r[i].0, "text": r[i].1}]}));
      }
      1 => {
        if texts.is_empty() {
          continue;
        }
        let i = t.choose(texts.len());
        let to = vec![format!("Moved{}", t.choose(3))];
        ops.push(json!({"op": "rename", "pairs": [[texts[i].0, to]]}));
        texts[i].0 = to;
      }
      2 => {
        if texts.is_empty() {
          continue;
        }
        let i = t.choose(texts.len());
        let (name, _) = texts.remove(i);
        ops.push(json!({"op": "remove", "names": [name]}));
      }
      _ => {
        let pool: &Vec<(Vec<String>, String)> = if (t.bool(1, 10) && !std_names.is_empty()) || texts.is_empty() { &std_names } else { &texts };
        if pool.is_empty() {
          continue;
        }
        let (name, text) = &pool[t.choose(pool.len())];
        let lines: Vec<&str> = text.split('\n').collect();
        let idents: Vec<(usize, usize)> = lines.iter().enumerate().flat_map(|(li, l)| l.char_indices().filter(|(_, c)| c.is_ascii_alphanumeric() || *c == '.' || *c == '(').map(move |(ci, _)| (li, ci))).collect();
        let (line, col) = if idents.is_empty() || t.bool(1, 12) { (t.choose(lines.len() + 2), t.choose(40)) } else { idents[t.choose(idents.len())] };
        let q = ["hover", "completion", "signature", "definition", "references", "rename", "code-actions", "format", "folding"][t.weighted(&[4, 4, 3, 4, 4, 4, 2, 1, 1])];
        let new_name = ["renamed", "aRenamedVariableWithAVeryLongName", "x", "Bad", ""][t.weighted(&[4, 4, 2, 1, 1])];
        ops.push(json!({"op": "query", "kind": q, "module": name, "line": line, "col": col, "end_col": col + t.choose(6), "new_name": new_name}));
      }
    }
  }
  json!({"initial": initial, "ops": ops, "rich": true})
}

/// histories whose module contents come from the grammar-based generator (G5) with long
/// (heap-allocated, collectable) identifiers in every identifier position and comments
fn gen_history_syntactic(t: &mut Tape, max_ops: usize) -> Value {
  use crate::generators::syngen::{Layout, SynCfg, gen_module};
  let names: [&[&str]; 4] = [&["A"], &["B"], &["lib", "C"], &["AModuleWithAVeryLongName"]];
  let name = |i: usize| -> Vec<String> { names[i % 4].iter().map(|s| s.to_string()).collect() };
  let text = |t: &mut Tape| -> String {
    let cfg = SynCfg { layout: Layout::Plain, comment_permille: if t.bool(1, 3) { 60 } else { 0 }, budget: 15 + t.small_len(70) as i32, non_ascii: false, long_lines: false, long_idents: t.bool(3, 4) };
    gen_module(t, cfg)
  };
  let mut texts: Vec<Option<String>> = vec![None; 4];
  let mut initial = vec![];
  for i in 0..4 {
    if t.bool(1, 2) {
      let x = text(t);
      initial.push(json!({"name": name(i), "text": x}));
      texts[i] = Some(x);
    }
  }
  let n_ops = 1 + t.choose(max_ops);
  let mut ops = vec![];
  for _ in 0..n_ops {
    match t.weighted(&[5, 1, 1, 12]) {
      0 => {
        let i = t.choose(4);
        let x = text(t);
        texts[i] = Some(x.clone());
        ops.push(json!({"op": "update", "mods": [{"name": name(i), "text": x}]}));
      }
      1 => {
        let (a, b) = (t.choose(4), t.choose(4));
        if a != b && texts[a].is_some() {
          texts[b] = texts[a].take();
        }
        ops.push(json!({"op": "rename", "pairs": [[name(a), name(b)]]}));
      }
      2 => {
        let a = t.choose(4);
        texts[a] = None;
        ops.push(json!({"op": "remove", "names": [name(a)]}));
      }
      _ => {
        let live: Vec<usize> = (0..4).filter(|i| texts[*i].is_some()).collect();
        let m = if !live.is_empty() && t.bool(9, 10) { live[t.choose(live.len())] } else { t.choose(4) };
        let x = texts[m].clone().unwrap_or_default();
        let lines: Vec<&str> = x.split('\n').collect();
        let idents: Vec<(usize, usize)> = lines.iter().enumerate().flat_map(|(li, l)| l.char_indices().filter(|(_, c)| c.is_ascii_alphanumeric() || *c == '.' || *c == '(').map(move |(ci, _)| (li, ci))).collect();
        let (line, col) = if idents.is_empty() || t.bool(1, 10) { (t.choose(lines.len() + 2), t.choose(40)) } else { idents[t.choose(idents.len())] };
        let q = ["hover", "completion", "signature", "definition", "references", "rename", "code-actions", "format", "folding"][t.weighted(&[3, 3, 2, 3, 3, 4, 2, 4, 1])];
        let new_name = ["renamed", "aRenamedVariableWithAVeryLongName", "x"][t.choose(3)];
        ops.push(json!({"op": "query", "kind": q, "module": name(m), "line": line, "col": col, "end_col": col + t.choose(6), "new_name": new_name}));
      }
    }
  }
  json!({"initial": initial, "ops": ops, "syntactic": true})
}

/// text of one module of a long session: `count` members whose names, parameter names and string
/// literals are all longer than the heap's inline capacity and unique to (module, step), so every
/// edit interns ~3*count strings that no earlier edit interned
fn long_session_text(which: usize, step: u64, count: u64, flavour: u64) -> String {
  let mut s = String::new();
  let me = ["SessionModuleA", "SessionModuleB"][which % 2];
  if which % 2 == 1 {
    s.push_str("import { SessionModuleA } from SessionModuleA;\n\n");
  }
  s.push_str(&format!("class {me}(val fieldWithAVeryLongNameOfStep{step}: int) {{\n"));
  s.push_str(&format!("  function makeOneOfTheseWithALongName(): {me} = {me}.init({step})\n\n"));
  if which % 2 == 1 {
    s.push_str("  function useTheOtherModuleOfTheSession(): SessionModuleA = SessionModuleA.makeOneOfTheseWithALongName()\n\n");
  }
  for j in 0..count {
    s.push_str(&format!(
      "  function generatedMember{which}x{step}x{j}WithALongName(aParameterWithAVeryLongName{which}x{step}x{j}: int): Str =\n    \"a fresh string literal, module {which} step {step} member {j}\"\n\n"
    ));
  }
  match flavour % 4 {
    1 => s.push_str(&format!("  function illTyped{step}(): int = anUnboundNameThatIsVeryLongOfStep{which}x{step}\n\n")),
    2 => s.push_str(&format!("  /** a doc comment that is only alive during step {step} of module {which} */\n  function documentedMemberOfStep{step}(): int = 0\n\n")),
    _ => {}
  }
  s.push_str("}\n");
  s
}

/// long sessions: two modules, 30-150 edits each interning hundreds of fresh long strings (the string
/// table outgrows what one incremental GC slice sweeps, so sweeps span several edits), with a few
/// requests after every edit
fn gen_history_long(t: &mut Tape, tier: Tier) -> Value {
  let n_edits = if tier == Tier::Quick { 30 + t.choose(120) } else { 60 + t.choose(400) } as u64;
  let initial = vec![json!({"name": ["SessionModuleA"], "text": long_session_text(0, 0, 2, 0)}), json!({"name": ["SessionModuleB"], "text": long_session_text(1, 0, 2, 0)})];
  let mut cur = [long_session_text(0, 0, 2, 0), long_session_text(1, 0, 2, 0)];
  let mut ops = vec![];
  for step in 1..=n_edits {
    let which = t.weighted(&[3, 2]);
    let count = (20 + t.choose(180)) as u64;
    let flavour = t.choose(4) as u64;
    cur[which] = long_session_text(which, step, count, flavour);
    ops.push(json!({"op": "update-gen", "which": which, "step": step, "count": count, "flavour": flavour}));
    for _ in 0..(1 + t.choose(3)) {
      let m = t.choose(2);
      let lines: Vec<&str> = cur[m].split('\n').collect();
      let li = t.choose(lines.len());
      let cols: Vec<usize> = lines[li].char_indices().filter(|(_, c)| c.is_ascii_alphanumeric()).map(|(i, _)| i).collect();
      let col = if cols.is_empty() { 0 } else { cols[t.choose(cols.len())] };
      let q = ["hover", "completion", "definition", "references", "rename", "code-actions", "format", "folding", "signature"][t.weighted(&[5, 3, 3, 3, 2, 2, 4, 1, 1])];
      ops.push(json!({"op": "query", "kind": q, "module": [if m == 0 { "SessionModuleA" } else { "SessionModuleB" }], "line": li, "col": col, "end_col": col + 3, "new_name": "aRenamedVariableWithAVeryLongName"}));
    }
  }
  json!({"initial": initial, "ops": ops, "long_session": true})
}

// ------------------------------------------------------------------------------- interpretation

fn name_of(v: &Value) -> Vec<String> {
  v.as_array().cloned().unwrap_or_default().iter().map(|x| x.as_str().unwrap_or("").to_string()).collect()
}

struct World {
  state: ServerState,
  /// module name -> text, the harness's own record of "the current set of file contents"
  model: BTreeMap<String, String>,
  /// every module name ever mentioned
  seen: BTreeMap<String, Vec<String>>,
}

fn mr_of(heap: &mut Heap, name: &[String]) -> ModuleReference {
  heap.alloc_module_reference_from_string_vec(name.to_vec())
}

impl World {
  fn new(art: &Value) -> World {
    let mut heap = Heap::new();
    let mut sources = HashMap::new();
    let mut model = BTreeMap::new();
    let mut seen = BTreeMap::new();
    for m in art["initial"].as_array().cloned().unwrap_or_default() {
      let name = name_of(&m["name"]);
      let text = m["text"].as_str().unwrap_or("").to_string();
      sources.insert(mr_of(&mut heap, &name), text.clone());
      model.insert(name.join("."), text);
      seen.insert(name.join("."), name);
    }
    World { state: ServerState::new(heap, false, sources), model, seen }
  }

  fn note(&mut self, name: &[String]) {
    self.seen.insert(name.join("."), name.to_vec());
  }

  /// applies an edit operation to the server and to the model
  fn edit(&mut self, o: &Value) {
    match o["op"].as_str().unwrap_or("") {
      "update" => {
        let mut ups = vec![];
        for m in o["mods"].as_array().cloned().unwrap_or_default() {
          let name = name_of(&m["name"]);
          let text = m["text"].as_str().unwrap_or("").to_string();
          self.note(&name);
          self.model.insert(name.join("."), text.clone());
          ups.push((mr_of(&mut self.state.heap, &name), text));
        }
        self.state.update(ups);
      }
      "update-gen" => {
        let which = o["which"].as_u64().unwrap_or(0) as usize;
        let name = vec![["SessionModuleA", "SessionModuleB"][which % 2].to_string()];
        let text = long_session_text(which, o["step"].as_u64().unwrap_or(0), o["count"].as_u64().unwrap_or(1), o["flavour"].as_u64().unwrap_or(0));
        self.note(&name);
        self.model.insert(name.join("."), text.clone());
        let mr = mr_of(&mut self.state.heap, &name);
        self.state.update(vec![(mr, text)]);
      }
      "rename" => {
        let mut pairs = vec![];
        for p in o["pairs"].as_array().cloned().unwrap_or_default() {
          let (a, b) = (name_of(&p[0]), name_of(&p[1]));
          self.note(&a);
          self.note(&b);
          if let Some(text) = self.model.remove(&a.join(".")) {
            self.model.insert(b.join("."), text);
          }
          pairs.push((mr_of(&mut self.state.heap, &a), mr_of(&mut self.state.heap, &b)));
        }
        self.state.rename_module(pairs);
      }
      "remove" => {
        let mut names = vec![];
        for p in o["names"].as_array().cloned().unwrap_or_default() {
          let a = name_of(&p);
          self.note(&a);
          self.model.remove(&a.join("."));
          names.push(mr_of(&mut self.state.heap, &a));
        }
        self.state.remove(&names);
      }
      _ => {}
    }
  }

  fn query(&mut self, o: &Value) -> String {
    let name = name_of(&o["module"]);
    self.note(&name);
    let mr = mr_of(&mut self.state.heap, &name);
    let pos = Position(o["line"].as_u64().unwrap_or(0) as u32, o["col"].as_u64().unwrap_or(0) as u32);
    match o["kind"].as_str().unwrap_or("") {
      "hover" => format!("{}", query::hover(&self.state, &mr, pos).map(|r| r.contents.len()).unwrap_or(0)),
      "completion" => format!("{}", completion::auto_complete(&self.state, &mr, pos).len()),
      "signature" => format!("{}", query::signature_help(&self.state, &mr, pos).is_some()),
      "definition" => format!("{}", query::definition_location(&self.state, &mr, pos).is_some()),
      "references" => format!("{}", query::all_references(&self.state, &mr, pos).len()),
      "rename" => format!("{}", rewrite::rename(&mut self.state, &mr, pos, o["new_name"].as_str().unwrap_or("x")).is_some()),
      "code-actions" => {
        let end = Position(pos.0, o["end_col"].as_u64().unwrap_or(0) as u32);
        format!("{}", rewrite::code_actions(&self.state, Location { module_reference: mr, start: pos, end }).len())
      }
      "format" => format!("{}", rewrite::format_entire_document(&self.state, &mr).is_some()),
      _ => format!("{}", query::folding_ranges(&self.state, &mr).map(|v| v.len()).unwrap_or(0)),
    }
  }
}

/// rendered diagnostics of every module name in `names`, sorted per module
fn diagnostics(state: &mut ServerState, names: &BTreeMap<String, Vec<String>>) -> BTreeMap<String, Vec<String>> {
  let mut out = BTreeMap::new();
  for (k, name) in names {
    let mr = mr_of(&mut state.heap, name);
    // everything a client is sent for a diagnostic: range, short message, full rendering (with its
    // code frames, cut from the texts the server holds) and the related locations
    let mut v: Vec<String> = state
      .get_errors(&mr)
      .iter()
      .map(|e| {
        let ide = e.to_ide_format(&state.heap, &state.string_sources);
        let refs: Vec<String> = ide.reference_locs.iter().map(|l| l.pretty_print(&state.heap)).collect();
        format!("{} {}\n  related: {:?}\n  full: {}", e.location.pretty_print(&state.heap), ide.ide_error, refs, ide.full_error)
      })
      .collect();
    v.sort();
    out.insert(k.clone(), v);
  }
  out
}

fn describe_model(model: &BTreeMap<String, String>) -> String {
  model.iter().map(|(k, v)| format!("--- module {k} ---\n{v}")).collect::<Vec<_>>().join("\n")
}

fn op_summary(o: &Value) -> String {
  match o["op"].as_str().unwrap_or("") {
    "update" => format!("update {:?}", o["mods"].as_array().cloned().unwrap_or_default().iter().map(|m| name_of(&m["name"]).join(".")).collect::<Vec<_>>()),
    "rename" => format!("rename {}", o["pairs"]),
    "remove" => format!("remove {}", o["names"]),
    "update-gen" => format!("update session module {} with {} fresh members (step {}, flavour {})", o["which"], o["count"], o["step"], o["flavour"]),
    _ => format!("query {} at {}:{}:{}", o["kind"].as_str().unwrap_or(""), name_of(&o["module"]).join("."), o["line"], o["col"]),
  }
}

impl Prop for C10 {
  fn id(&self) -> &'static str {
    "C10"
  }
  fn rule(&self) -> String {
    "histories of 1-14 operations (single and multi-module update, creation, no-op update, signature-preserving edits of a live module (comment / blank lines in front of the text or after its first line, a re-laid-out member body), rename-module onto a fresh or an existing name, remove; also of modules that do not exist) over a pool of six module names, starting from 0-5 initial modules; module contents are generated with 0-4 imports among the pool (self-imports, cycles, missing modules, wrong class names), classes whose member signatures other modules depend on transitively (return types naming imported classes), interfaces implemented by classes of other modules, private classes, injected type errors / unbound names, empty files, comment-only files and unparsable text, short or long (heap-allocated) identifiers; oracle (differential): after every operation the rendered diagnostics (location, short message, full rendering with code frames, related locations) held for every module name ever mentioned must equal, as sorted lists, those of a fresh ServerState built from the current contents, and the set of modules must be the same; non-trivial = >=3 operations, >=2 modules alive at some point and >=1 diagnostic somewhere during the history; distinct = hash of the history".into()
  }
  fn assumptions(&self) -> Vec<String> {
    vec![
      "a batch of updates names each module at most once (one file event per module, as the LSP front end sends them)".into(),
      "renaming an existing module onto an existing name replaces the target; renaming or removing a module that does not exist changes nothing (the harness's content model)".into(),
      "diagnostics are compared as sorted lists of rendered strings: the order inside ServerState::get_errors depends on heap ids and is not part of the comparison".into(),
    ]
  }
  fn params(&self, tier: Tier) -> Params {
    match tier {
      Tier::Quick => Params { cases: 40_000, tape_len: 2500, workers: 14, stack_mb: 64, worker_timeout_s: 1500, shrink_iters: 1500 },
      Tier::Thorough => Params { cases: 200_000, tape_len: 6000, workers: 16, stack_mb: 64, worker_timeout_s: 5 * 3600, shrink_iters: 1500 },
    }
  }
  fn generate(&self, t: &mut Tape, tier: Tier) -> Value {
    gen_history(t, false, if tier == Tier::Quick { 14 } else { 40 })
  }
  fn check(&self, art: &Value) -> Outcome {
    let mut out = Outcome::default();
    out.key = fnv(art.to_string().as_bytes());
    let ops = art["ops"].as_array().cloned().unwrap_or_default();
    let mut w = match guard(|| World::new(art)) {
      Ok(w) => w,
      Err(_) => return Outcome::discarded("server-panics-on-start(C11)"),
    };
    let mut any_diag = false;
    let mut max_live = w.model.len();
    let mut history = vec![];
    for (i, o) in ops.iter().enumerate() {
      history.push(format!("{i}: {}", op_summary(o)));
      let kind = o["op"].as_str().unwrap_or("").to_string();
      if guard(|| w.edit(o)).is_err() {
        out.label("history-cut:server-panic(C11)");
        break;
      }
      max_live = max_live.max(w.model.len());
      // from scratch
      let mut heap = Heap::new();
      let sources: HashMap<ModuleReference, String> = w.model.iter().map(|(k, v)| (mr_of(&mut heap, &w.seen[k]), v.clone())).collect();
      let Ok(mut fresh) = guard(|| ServerState::new(heap, false, sources)) else {
        out.label("history-cut:fresh-server-panic(C05)");
        break;
      };
      let names = w.seen.clone();
      let inc = match guard(|| diagnostics(&mut w.state, &names)) {
        Ok(d) => d,
        Err(e) => {
          out.fail(format!("held-diagnostics-cannot-be-rendered/after-{kind}/{}", e.0), format!("rendering the diagnostics the server holds panicked: {}\nhistory:\n{}\n{}", e.1, history.join("\n"), describe_model(&w.model)));
          break;
        }
      };
      let scratch = diagnostics(&mut fresh, &names);
      any_diag |= scratch.values().any(|v| !v.is_empty());
      let mut live: Vec<String> = w.state.all_modules().iter().map(|m| m.pretty_print(&w.state.heap)).collect();
      live.sort();
      let expected: Vec<String> = w.model.keys().cloned().collect();
      if live != expected {
        out.fail(format!("module-set-differs/after-{kind}"), format!("the server holds modules {live:?}, the contents are {expected:?}\nhistory:\n{}\n{}", history.join("\n"), describe_model(&w.model)));
        break;
      }
      if inc != scratch {
        let (m, a, b) = inc.iter().filter_map(|(k, v)| if scratch.get(k) != Some(v) { Some((k.clone(), v.clone(), scratch.get(k).cloned().unwrap_or_default())) } else { None }).next().unwrap();
        let class = if a.len() > b.len() || b.iter().all(|x| a.contains(x)) { "stale-diagnostic" } else if a.iter().all(|x| b.contains(x)) { "missed-diagnostic" } else { "different-diagnostic" };
        let alive = if w.model.contains_key(&m) { "live-module" } else { "absent-module" };
        out.fail(
          format!("{class}/after-{kind}/{alive}"),
          format!("after operation {i} ({}) the diagnostics of module {m} differ\nincremental: {a:#?}\nfrom scratch: {b:#?}\nhistory:\n{}\ncurrent contents:\n{}\ninitial: {}", op_summary(o), history.join("\n"), describe_model(&w.model), art["initial"]),
        );
        break;
      }
    }
    out.nontrivial = ops.len() >= 3 && max_live >= 2 && any_diag;
    out.label(format!("ops:{}", if ops.len() < 3 { "<3" } else if ops.len() < 8 { "3-7" } else { ">=8" }));
    for o in &ops {
      out.label(format!("op:{}{}", o["op"].as_str().unwrap_or(""), if o["layout_only"].as_bool() == Some(true) { ":signature-preserving-edit" } else { "" }));
    }
    out.label(if any_diag { "diagnostics:some" } else { "diagnostics:none" });
    out.sample = Some(json!({"history": history.iter().take(10).collect::<Vec<_>>(), "modules_alive_max": max_live}));
    out
  }
}

impl Prop for C11 {
  fn id(&self) -> &'static str {
    "C11"
  }
  fn rule(&self) -> String {
    "four workspace kinds. (0, 1 case in 80) long sessions: two modules (one importing the other), 30-150 edits (thorough: up to 460) each replacing one module by 20-200 members whose names, parameter names and string literals are longer than the heap's inline capacity and never seen before, sometimes ill-typed or with a doc comment, so that the string table outgrows what one incremental GC slice sweeps (10 000 slots) and a sweep spans several edits; 1-3 requests after every edit. (1, 4 of the remaining cases in 10) C10's histories (updates, creations, renames, removals over six module names with valid, ill-typed, empty and unparsable contents, short or long heap-allocated identifiers; every edit runs a GC slice) interleaved with requests - hover, completion, signature help, go to definition, find references, rename (valid, long, capitalised, empty and spaced new names), code actions over a range, format, folding ranges - at identifier characters (3 in 4) or anywhere up to 3 lines / 4 columns outside the text, on live, never-edited, renamed, removed and never-existing modules. (2, 3 in 10) a G1 generated program (every language construct: generics, interfaces, lambdas and closures, patterns, match, method references...) together with the std modules it imports, edited by single-fault mutants of its modules (22 fault kinds), module renames and removals, with requests at identifier / `.` / `(` positions of user and std modules. (3, 3 in 10) four modules whose contents come from the grammar-based generator G5 (every production of the grammar, mostly ill-typed) with comments and, 3 times in 4, identifiers longer than the heap's inline capacity in every identifier position (unused parameters, fields, type parameters, pattern variables, imports ...), replaced, renamed and removed, with requests at identifier positions; oracle: no call aborts (every call runs under catch_unwind; a panic is a violation keyed by its source location); non-trivial = >=1 edit and >=3 requests; distinct = hash of the history".into()
  }
  fn assumptions(&self) -> Vec<String> {
    vec![
      "a read of a reclaimed string is only visible here when it panics or trips the heap's own checks; C17 decides the heap contract itself".into(),
      "the history stops at the first panic (the state may be half-updated afterwards)".into(),
    ]
  }
  fn params(&self, tier: Tier) -> Params {
    match tier {
      Tier::Quick => Params { cases: 60_000, tape_len: 3000, workers: 14, stack_mb: 64, worker_timeout_s: 1500, shrink_iters: 1500 },
      Tier::Thorough => Params { cases: 300_000, tape_len: 8000, workers: 16, stack_mb: 64, worker_timeout_s: 5 * 3600, shrink_iters: 1500 },
    }
  }
  fn generate(&self, t: &mut Tape, tier: Tier) -> Value {
    let max_ops = if tier == Tier::Quick { 40 } else { 120 };
    if t.bool(1, 80) {
      return gen_history_long(t, tier);
    }
    match t.weighted(&[4, 3, 3]) {
      0 => gen_history(t, true, max_ops),
      1 => gen_history_rich(t, tier, max_ops),
      _ => gen_history_syntactic(t, max_ops),
    }
  }
  fn check(&self, art: &Value) -> Outcome {
    let mut out = Outcome::default();
    out.key = fnv(art.to_string().as_bytes());
    let ops = art["ops"].as_array().cloned().unwrap_or_default();
    let mut history = vec![];
    let mut w = match guard(|| World::new(art)) {
      Ok(w) => w,
      Err(e) => {
        out.fail(panic_sig("ServerState::new", &e), format!("ServerState::new panicked: {}\ninitial: {}", e.1, art["initial"]));
        return out;
      }
    };
    let (mut edits, mut queries) = (0, 0);
    for (i, o) in ops.iter().enumerate() {
      history.push(format!("{i}: {}", op_summary(o)));
      let is_query = o["op"] == "query";
      let r = if is_query {
        guard(|| w.query(o)).map(|r| {
          if r != "0" && r != "false" {
            out.label(format!("answered:{}", o["kind"].as_str().unwrap_or("")));
          }
        })
      } else {
        guard(|| w.edit(o))
      };
      if is_query {
        queries += 1;
        out.label(format!("query:{}", o["kind"].as_str().unwrap_or("")));
      } else {
        edits += 1;
      }
      if let Err(e) = r {
        let what = if is_query { o["kind"].as_str().unwrap_or("query").to_string() } else { o["op"].as_str().unwrap_or("edit").to_string() };
        out.fail(
          panic_sig(&what, &e),
          format!("operation {i} ({}) panicked: {}\nhistory:\n{}\ncurrent contents:\n{}\ninitial: {}", op_summary(o), e.1, history.join("\n"), describe_model(&w.model), art["initial"]),
        );
        break;
      }
    }
    out.nontrivial = edits >= 1 && queries >= 3;
    if art["long_session"] == true {
      out.label("workspace:long-session");
      // how far the string table grew: a table above the sweep unit means sweeps span several edits
      let stat = w.state.heap.stat();
      let slots: u64 = stat.split("Total slots: ").nth(1).and_then(|x| x.split('.').next()).and_then(|x| x.trim().parse().ok()).unwrap_or(0);
      out.label(format!("long-session:string-table-slots:{}", if slots < 10_000 { "<10000" } else if slots < 30_000 { "10000-29999" } else { ">=30000" }));
    } else if art["rich"] == true {
      out.label("workspace:G1-program+std");
    } else if art["syntactic"] == true {
      out.label("workspace:grammar-generated-modules");
    } else {
      out.label("workspace:module-pool");
    }
    out.label(format!("requests:{}", if queries < 3 { "<3" } else if queries < 10 { "3-9" } else { ">=10" }));
    out.sample = Some(json!({"history": history.iter().take(12).collect::<Vec<_>>()}));
    out
  }
}
