//! Shared pieces of the formatter / position checks (C08, C09, C14).

use crate::engine::{Tape, Tier, repo_root};
use crate::generators::syngen::{Layout, SynCfg, gen_module};
use serde_json::{Value, json};

pub const WIDTHS: &[usize] = &[100, 40, 20, 60, 80, 120];

pub enum Profile {
  /// C08: operator nesting, literals; few comments
  Structure,
  /// C09: comments in every slot
  Comments,
  /// C14: adversarial layout
  Layout,
}

pub fn gen_text(t: &mut Tape, tier: Tier, profile: Profile) -> Value {
  let budget = match tier {
    Tier::Quick => 20 + t.small_len(120) as i32,
    Tier::Thorough => 20 + t.small_len(400) as i32,
  };
  let width = WIDTHS[t.choose(if tier == Tier::Quick { 2 } else { WIDTHS.len() })];
  let cfg = match profile {
    Profile::Structure => SynCfg {
      layout: if t.bool(1, 6) { Layout::Wild } else { Layout::Plain },
      comment_permille: if t.bool(1, 8) { 40 } else { 0 },
      budget,
      non_ascii: t.bool(1, 10),
      long_lines: false,
      long_idents: false,
    },
    Profile::Comments => SynCfg {
      layout: if t.bool(1, 5) { Layout::Wild } else { Layout::Plain },
      comment_permille: [30, 15, 80, 250][t.choose(4)],
      budget,
      non_ascii: t.bool(1, 8),
      long_lines: false,
      long_idents: false,
    },
    Profile::Layout => SynCfg {
      layout: if t.bool(1, 10) { Layout::Plain } else { Layout::Wild },
      comment_permille: [0, 60, 200][t.choose(3)],
      budget,
      non_ascii: t.bool(1, 2),
      long_lines: t.bool(1, 6),
      long_idents: false,
    },
  };
  let text = gen_module(t, cfg);
  json!({"text": text, "width": width})
}

/// every .sam file of the repository's tests/ and std/ directories
pub fn repo_sam_files() -> Vec<(String, String)> {
  let mut out = vec![];
  for dir in ["tests", "std"] {
    let d = repo_root().join(dir);
    let mut files: Vec<_> = std::fs::read_dir(&d).map(|r| r.filter_map(|e| e.ok()).map(|e| e.path()).collect()).unwrap_or_default();
    files.sort();
    for f in files {
      if f.extension().and_then(|e| e.to_str()) == Some("sam")
        && let Ok(text) = std::fs::read_to_string(&f)
      {
        out.push((format!("{dir}/{}", f.file_name().unwrap().to_string_lossy()), text));
      }
    }
  }
  out
}

pub fn repo_fixed_cases(widths: &[usize]) -> Vec<Value> {
  let mut v = vec![];
  for (name, text) in repo_sam_files() {
    for w in widths {
      v.push(json!({"text": text, "width": w, "origin": name}));
    }
  }
  v
}

pub fn short(text: &str, n: usize) -> String {
  if text.chars().count() <= n { text.to_string() } else { text.chars().take(n).collect::<String>() + "…" }
}
