//! known_findings.json – committed list of recorded (open) and repaired (fixed) findings.
//! Never written at run time.

use serde_json::Value;

#[derive(Clone, Debug)]
pub struct Finding {
  pub status: String, // "open" | "fixed"
  pub property: String,
  pub signature: String,
  pub what: String,
  pub repro: Option<String>,
  pub commit: Option<String>,
  /// generator flag that excludes the finding's shape by construction (counted in evidence)
  pub exclude: Option<String>,
  /// the signature is only tolerated for the finding's own probe, never for generated cases
  pub probe_only: bool,
  /// further signatures the same root cause produces (e.g. validator and engine wording of one fault)
  pub also: Vec<String>,
}

pub fn load() -> Vec<Finding> {
  let path = super::verif_root().join("known_findings.json");
  let Ok(text) = std::fs::read_to_string(&path) else {
    return vec![];
  };
  let v: Value = serde_json::from_str(&text).expect("known_findings.json must be valid JSON");
  let mut out = vec![];
  for f in v.get("findings").and_then(|f| f.as_array()).cloned().unwrap_or_default() {
    let s = |k: &str| f.get(k).and_then(|x| x.as_str()).map(|x| x.to_string());
    out.push(Finding {
      status: s("status").unwrap_or_default(),
      property: s("property").unwrap_or_default(),
      signature: s("signature").unwrap_or_default(),
      what: s("what").unwrap_or_default(),
      repro: s("repro"),
      commit: s("commit"),
      exclude: s("exclude"),
      probe_only: f.get("probe_only").and_then(|x| x.as_bool()).unwrap_or(false),
      also: f.get("also").and_then(|x| x.as_array()).map(|a| a.iter().filter_map(|x| x.as_str().map(|s| s.to_string())).collect()).unwrap_or_default(),
    });
  }
  out
}

pub fn open_for(all: &[Finding], property: &str) -> Vec<Finding> {
  all.iter().filter(|f| f.property == property && f.status == "open").cloned().collect()
}

/// Set of open signatures of a property (suppress nothing for "fixed").
pub fn open_sigs(all: &[Finding], property: &str) -> std::collections::HashSet<String> {
  open_for(all, property).into_iter().filter(|f| !f.probe_only).flat_map(|f| std::iter::once(f.signature.clone()).chain(f.also.clone())).collect()
}

pub fn open_sigs_incl_probe_only(all: &[Finding], property: &str) -> std::collections::HashSet<String> {
  open_for(all, property).into_iter().flat_map(|f| std::iter::once(f.signature.clone()).chain(f.also.clone())).collect()
}

/// generator exclusion flags requested by open findings of a property
pub fn excluded(property: &str, flag: &str) -> bool {
  static CACHE: std::sync::OnceLock<Vec<(String, String)>> = std::sync::OnceLock::new();
  let all = CACHE.get_or_init(|| load().into_iter().filter(|f| f.status == "open").filter_map(|f| f.exclude.clone().map(|e| (f.property.clone(), e))).collect());
  all.iter().any(|(p, e)| p == property && e == flag)
}
