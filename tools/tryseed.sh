#!/bin/bash
# Developer tool: apply a seeded patch to /repo, run the given checks, undo the patch.
# usage: tools/tryseed.sh <seed-dir> <ID> [<ID>...]
set -u
SEED="$1"; shift
cd /repo || exit 2
if ! git diff --quiet; then echo "repo dirty"; exit 2; fi
if ! git apply "$SEED/patch.diff"; then echo "PATCH DOES NOT APPLY"; exit 2; fi
for id in "$@"; do
  echo "=== $id with $(basename $SEED)"
  (cd /verif && timeout 1500 ./check "$id" 2>&1 | grep -E "VIOLATION|signature:|INCONCLUSIVE|^$id " | head -8)
done
git -C /repo checkout -- . 
git -C /repo status --short | head -3
