//! Worker process: replays / probes / fixed cases (worker 0) and the generated search.
//! Result goes to `<out>` as JSON; `<out>.inflight` always names the case being run so
//! that the parent can attribute an abort (stack overflow, abort()).

use super::{Outcome, Prop, Tape, Tier, findings};
use proptest::prelude::*;
use proptest::test_runner::{Config, RngAlgorithm, TestCaseError, TestError, TestRng, TestRunner};
use serde_json::{Value, json};
use std::cell::RefCell;
use std::collections::{BTreeMap, HashSet};
use std::path::{Path, PathBuf};

#[derive(Default)]
pub struct Stats {
  pub evaluations: u64,
  pub nontrivial_keys: HashSet<u64>,
  pub nontrivial_total: u64,
  pub labels: BTreeMap<String, u64>,
  pub discards: BTreeMap<String, u64>,
  pub known_hits: BTreeMap<String, u64>,
  pub samples: Vec<Value>,
  pub nontrivial_samples: Vec<Value>,
  pub failures: Vec<Value>,
  pub fixed_cases: u64,
  pub replays: u64,
  pub probes: Vec<Value>,
}

impl Stats {
  fn absorb(&mut self, o: &Outcome, known: &HashSet<String>) {
    self.evaluations += 1;
    if let Some(d) = &o.discard {
      *self.discards.entry(d.clone()).or_default() += 1;
      return;
    }
    let mut ls: Vec<&String> = o.labels.iter().collect();
    ls.sort();
    ls.dedup();
    for l in ls {
      *self.labels.entry(l.clone()).or_default() += 1;
    }
    if o.nontrivial {
      self.nontrivial_total += 1;
      if self.nontrivial_keys.insert(o.key)
        && self.nontrivial_samples.len() < 3
        && let Some(s) = &o.sample
      {
        self.nontrivial_samples.push(s.clone());
      }
    } else if self.samples.len() < 2
      && let Some(s) = &o.sample
    {
      self.samples.push(s.clone());
    }
    for f in &o.failures {
      if known.contains(&f.sig) {
        *self.known_hits.entry(f.sig.clone()).or_default() += 1;
      }
    }
  }

  pub fn to_json(&self) -> Value {
    json!({
      "evaluations": self.evaluations,
      "nontrivial_keys": self.nontrivial_keys.iter().collect::<Vec<_>>(),
      "nontrivial_total": self.nontrivial_total,
      "labels": self.labels,
      "discards": self.discards,
      "known_hits": self.known_hits,
      "samples": self.samples,
      "nontrivial_samples": self.nontrivial_samples,
      "failures": self.failures,
      "fixed_cases": self.fixed_cases,
      "replays": self.replays,
      "probes": self.probes,
    })
  }
}

fn unknown_failures<'a>(o: &'a Outcome, known: &HashSet<String>) -> Vec<&'a super::Failure> {
  o.failures.iter().filter(|f| !known.contains(&f.sig)).collect()
}

/// developer mode (VERIF_EXPLORE=1): do not stop at failures, collect one sample per signature
pub fn explore_mode() -> bool {
  std::env::var("VERIF_EXPLORE").map(|v| v == "1").unwrap_or(false)
}

fn write_inflight(path: &Path, v: &Value) {
  let _ = std::fs::write(path, serde_json::to_vec(v).unwrap());
}

/// check with harness-panic containment
pub fn checked(prop: &dyn Prop, art: &Value) -> Outcome {
  match super::guard(|| prop.check(art)) {
    Ok(o) => o,
    Err(e) => {
      let mut o = Outcome::default();
      o.fail(format!("harness-panic/{}/{}", e.0, super::msg_class(&e.1)), e.1);
      o
    }
  }
}

pub fn seed_bytes(seed: u64, id: &str, index: u64) -> [u8; 32] {
  let mut out = [0u8; 32];
  let mut h = super::fnv(format!("{seed}/{id}/{index}").as_bytes());
  for chunk in out.chunks_mut(8) {
    h = h.wrapping_mul(6364136223846793005).wrapping_add(1442695040888963407);
    chunk.copy_from_slice(&(h ^ (h >> 29)).to_le_bytes());
  }
  out
}

pub struct WorkerArgs {
  pub tier: Tier,
  pub seed: u64,
  pub index: usize,
  pub nworkers: usize,
  pub cases: u64,
  pub out: PathBuf,
  pub restart: u64,
}

pub fn run_worker(prop: &'static dyn Prop, args: WorkerArgs) {
  let params = prop.params(args.tier);
  let stack = params.stack_mb.max(1) * 1024 * 1024;
  let h = std::thread::Builder::new()
    .stack_size(stack)
    .name("sv-worker".into())
    .spawn(move || worker_body(prop, args))
    .unwrap();
  let _ = h.join();
}

fn worker_body(prop: &'static dyn Prop, args: WorkerArgs) {
  let params = prop.params(args.tier);
  super::install_panic_hook();
  prop.setup(args.tier);
  let all = findings::load();
  let known = findings::open_sigs(&all, prop.id());
  let inflight = PathBuf::from(format!("{}.inflight", args.out.display()));
  let mut stats = Stats::default();
  let root = super::verif_root();

  if args.index == 0 && args.restart == 0 {
    // 1. committed replays (regressions): no unknown failure allowed
    let dir = root.join("replays").join(prop.id());
    let mut files: Vec<PathBuf> = std::fs::read_dir(&dir)
      .map(|d| d.filter_map(|e| e.ok()).map(|e| e.path()).collect())
      .unwrap_or_default();
    files.sort();
    let probe_files: HashSet<String> = findings::open_for(&all, prop.id())
      .iter()
      .filter_map(|f| f.repro.clone())
      .collect();
    for f in files {
      if f.extension().and_then(|e| e.to_str()) != Some("json") {
        continue;
      }
      let rel = f.strip_prefix(&root).unwrap_or(&f).display().to_string();
      if probe_files.contains(&rel) {
        continue;
      }
      let Ok(text) = std::fs::read_to_string(&f) else { continue };
      let Ok(v) = serde_json::from_str::<Value>(&text) else { continue };
      let art = v.get("artifact").cloned().unwrap_or(v.clone());
      write_inflight(&inflight, &json!({"kind": "replay", "file": rel, "artifact": art}));
      let o = checked(prop, &art);
      stats.replays += 1;
      for fl in unknown_failures(&o, &known) {
        stats.failures.push(json!({"sig": fl.sig, "detail": fl.detail, "artifact": art, "origin": format!("replay:{rel}")}));
      }
    }
    // 2. probes of open findings
    for fd in findings::open_for(&all, prop.id()) {
      let Some(rel) = &fd.repro else {
        stats.probes.push(json!({"signature": fd.signature, "what": fd.what, "reproduced": Value::Null}));
        continue;
      };
      let text = std::fs::read_to_string(root.join(rel)).unwrap_or_default();
      let v: Value = serde_json::from_str(&text).unwrap_or(Value::Null);
      let art = v.get("artifact").cloned().unwrap_or(v.clone());
      write_inflight(&inflight, &json!({"kind": "probe", "file": rel, "signature": fd.signature, "artifact": art}));
      let o = checked(prop, &art);
      let reproduced = o.failures.iter().any(|f| f.sig == fd.signature || fd.also.contains(&f.sig));
      stats.probes.push(json!({"signature": fd.signature, "what": fd.what, "reproduced": reproduced,
        "observed": o.failures.iter().map(|f| f.sig.clone()).collect::<Vec<_>>()}));
      let known_for_probe = findings::open_sigs_incl_probe_only(&all, prop.id());
      for fl in unknown_failures(&o, &known_for_probe) {
        stats.failures.push(json!({"sig": fl.sig, "detail": fl.detail, "artifact": art, "origin": format!("probe:{rel}")}));
      }
    }
  }
  // 3. fixed cases, spread over workers
  if args.restart == 0 {
    let fixed = prop.fixed_cases(args.tier);
    for (i, art) in fixed.iter().enumerate() {
      if i % args.nworkers != args.index {
        continue;
      }
      write_inflight(&inflight, &json!({"kind": "fixed", "index": i, "artifact": art}));
      let o = checked(prop, art);
      stats.fixed_cases += 1;
      stats.absorb(&o, &known);
      for fl in unknown_failures(&o, &known) {
        stats.failures.push(json!({"sig": fl.sig, "detail": fl.detail, "artifact": art, "origin": format!("fixed:{i}")}));
      }
    }
  }

  // 4. generated search
  let config = Config {
    cases: args.cases.min(u32::MAX as u64) as u32,
    failure_persistence: None,
    max_shrink_iters: std::env::var("VERIF_SHRINK").ok().and_then(|s| s.parse().ok()).unwrap_or(params.shrink_iters),
    max_shrink_time: std::env::var("VERIF_SHRINK_MS").ok().and_then(|s| s.parse().ok()).unwrap_or(90_000),
    verbose: 0,
    max_global_rejects: u32::MAX,
    max_local_rejects: u32::MAX,
    ..Config::default()
  };
  let rng = TestRng::from_seed(
    RngAlgorithm::ChaCha,
    &seed_bytes(args.seed, prop.id(), args.index as u64 + 1000 * args.restart),
  );
  let mut runner = TestRunner::new_with_rng(config, rng);
  let strategy = proptest::collection::vec(any::<u32>(), 0..params.tape_len.max(2));
  let stats_cell = RefCell::new(stats);
  let failed = std::cell::Cell::new(false);
  // the first failing case as observed (kept in case the shrunk case does not reproduce, which is
  // inherent to properties about non-determinism)
  let first_failure: RefCell<Option<Value>> = RefCell::new(None);
  let tier = args.tier;
  let progress = PathBuf::from(format!("{}.progress", args.out.display()));
  let result = runner.run(&strategy, |tape_vec| {
    let shrinking = failed.get();
    write_inflight(&inflight, &json!({"kind": "tape", "tape": tape_vec, "shrinking": shrinking}));
    let mut tape = Tape::new(tape_vec);
    let art = match super::guard(|| prop.generate(&mut tape, tier)) {
      Ok(a) => a,
      Err(e) => {
        // a generator panic is a harness bug; make it loud
        failed.set(true);
        return Err(TestCaseError::fail(format!("generator-panic/{}/{}", e.0, e.1)));
      }
    };
    let t_case = std::time::Instant::now();
    let o = checked(prop, &art);
    if t_case.elapsed().as_millis() > 2000 && std::env::var("VERIF_TRACE").is_ok() {
      eprintln!("SLOW CASE {} ms: {}", t_case.elapsed().as_millis(), serde_json::to_string(&art).unwrap_or_default().chars().take(3000).collect::<String>());
    }
    if !shrinking {
      let mut st = stats_cell.borrow_mut();
      st.absorb(&o, &known);
      if st.evaluations % 64 == 0 {
        let _ = std::fs::write(&progress, st.evaluations.to_string());
      }
    }
    let unknown = unknown_failures(&o, &known);
    if explore_mode() {
      let mut st = stats_cell.borrow_mut();
      for f in unknown {
        *st.known_hits.entry(format!("EXPLORE:{}", f.sig)).or_default() += 1;
        if !st.failures.iter().any(|x| x["sig"].as_str() == Some(f.sig.as_str())) {
          st.failures.push(json!({"sig": f.sig, "detail": f.detail, "artifact": art, "origin": "explore"}));
        }
      }
      return Ok(());
    }
    if let Some(f) = unknown.first() {
      if !failed.get() {
        *first_failure.borrow_mut() = Some(json!({"sig": f.sig, "detail": f.detail, "artifact": art, "origin": "search (as first observed; the shrunk case did not reproduce)"}));
      }
      failed.set(true);
      Err(TestCaseError::fail(f.sig.clone()))
    } else {
      Ok(())
    }
  });
  let mut stats = stats_cell.into_inner();
  if let Err(TestError::Fail(reason, tape_vec)) = result {
    let mut tape = Tape::new(tape_vec.clone());
    match super::guard(|| prop.generate(&mut tape, tier)) {
      Ok(art) => {
        let o = checked(prop, &art);
        let unknown = unknown_failures(&o, &known);
        if unknown.is_empty() {
          match first_failure.borrow_mut().take() {
            Some(f) => stats.failures.push(f),
            None => stats.failures.push(json!({"sig": "harness/non-reproducible-after-shrink", "detail": reason.message().to_string(), "tape": tape_vec, "artifact": art, "origin": "search"})),
          }
        }
        for fl in unknown {
          stats.failures.push(json!({"sig": fl.sig, "detail": fl.detail, "tape": tape_vec, "artifact": art, "origin": "search"}));
        }
      }
      Err(e) => {
        stats.failures.push(json!({"sig": format!("harness/generator-panic/{}", e.0), "detail": e.1, "tape": tape_vec, "origin": "search"}));
      }
    }
  }
  let _ = std::fs::remove_file(&inflight);
  let _ = std::fs::remove_file(&progress);
  std::fs::write(&args.out, serde_json::to_vec(&stats.to_json()).unwrap()).unwrap();
}

/// Run exactly one case (artifact or tape) – used by the parent to confirm an abort and
/// to delta-debug it, and by `--replay`.
pub fn run_one(prop: &'static dyn Prop, tier: Tier, case: &Value) -> Outcome {
  let params = prop.params(tier);
  let stack = params.stack_mb.max(1) * 1024 * 1024;
  let case = case.clone();
  std::thread::Builder::new()
    .stack_size(stack)
    .spawn(move || {
      super::install_panic_hook();
      prop.setup(tier);
      let art = if let Some(t) = case.get("tape").and_then(|t| t.as_array()) {
        let data: Vec<u32> = t.iter().map(|x| x.as_u64().unwrap_or(0) as u32).collect();
        let mut tape = Tape::new(data);
        prop.generate(&mut tape, tier)
      } else {
        case.get("artifact").cloned().unwrap_or(case.clone())
      };
      (checked(prop, &art), art)
    })
    .unwrap()
    .join()
    .map(|(o, _)| o)
    .unwrap_or_else(|_| {
      let mut o = Outcome::default();
      o.fail("harness-panic/run_one", "thread panicked");
      o
    })
}
