//! Canonical structural dump of a parsed module: drops locations and comment
//! references, keeps names, literal values, operators *and their grouping*, pattern
//! structure, annotations, modifiers and member order. Imports are a sorted set of
//! (module, member) pairs (the formatter documents merging and sorting of imports).

use samlang_ast::source::*;
use samlang_heap::{Heap, ModuleReference};

pub struct Canon<'a> {
  pub heap: &'a Heap,
  /// when false, the defining module of class references is not part of the dump
  /// (it is derived from imports, which are compared separately)
  pub with_modules: bool,
}

impl<'a> Canon<'a> {
  pub fn new(heap: &'a Heap) -> Self {
    Canon { heap, with_modules: false }
  }

  fn s(&self, p: samlang_heap::PStr) -> String {
    p.as_str(self.heap).to_string()
  }

  fn mr(&self, m: ModuleReference) -> String {
    if self.with_modules { format!("@{}", m.pretty_print(self.heap)) } else { String::new() }
  }

  pub fn imports(&self, m: &Module<()>) -> Vec<(String, String)> {
    let mut v = vec![];
    for i in &m.imports {
      for mem in &i.imported_members {
        v.push((i.imported_module.pretty_print(self.heap), self.s(mem.name).to_string()));
      }
    }
    v.sort();
    v.dedup();
    v
  }

  pub fn module(&self, m: &Module<()>) -> String {
    let mut out = String::new();
    out.push_str("(imports");
    for (a, b) in self.imports(m) {
      out.push_str(&format!(" {a}.{b}"));
    }
    out.push(')');
    out.push_str(&self.toplevels(m));
    out
  }

  pub fn toplevels(&self, m: &Module<()>) -> String {
    let mut out = String::new();
    for t in &m.toplevels {
      out.push('\n');
      out.push_str(&self.toplevel(t));
    }
    out
  }

  pub fn toplevel(&self, t: &Toplevel<()>) -> String {
    match t {
      Toplevel::Interface(i) => format!(
        "(interface{} {}{}{} {})",
        if i.private { " private" } else { "" },
        self.s(i.name.name),
        self.tparams(&i.type_parameters),
        self.extends(&i.extends_or_implements_nodes),
        i.members.members.iter().map(|m| self.decl(m)).collect::<Vec<_>>().join(" ")
      ),
      Toplevel::Class(c) => format!(
        "(class{} {}{}{}{} {})",
        if c.private { " private" } else { "" },
        self.s(c.name.name),
        self.tparams(&c.type_parameters),
        self.typedef(&c.type_definition),
        self.extends(&c.extends_or_implements_nodes),
        c.members.members.iter().map(|m| format!("(def {} {})", self.decl(&m.decl), self.expr(&m.body))).collect::<Vec<_>>().join(" ")
      ),
    }
  }

  fn typedef(&self, t: &Option<TypeDefinition>) -> String {
    match t {
      None => String::new(),
      Some(TypeDefinition::Struct { fields, .. }) => format!(
        " (struct {})",
        fields.iter().map(|f| format!("({}{} {})", if f.is_public { "" } else { "private " }, self.s(f.name.name), self.annot(&f.annotation))).collect::<Vec<_>>().join(" ")
      ),
      Some(TypeDefinition::Enum { variants, .. }) => format!(
        " (enum {})",
        variants
          .iter()
          .map(|v| match &v.associated_data_types {
            None => self.s(v.name.name).to_string(),
            Some(l) => format!("({} {})", self.s(v.name.name), l.annotations.iter().map(|a| self.annot(a)).collect::<Vec<_>>().join(" ")),
          })
          .collect::<Vec<_>>()
          .join(" ")
      ),
    }
  }

  fn extends(&self, e: &Option<ExtendsOrImplementsNodes>) -> String {
    match e {
      None => String::new(),
      Some(n) => format!(" (extends {})", n.nodes.iter().map(|i| self.id_annot(i)).collect::<Vec<_>>().join(" ")),
    }
  }

  fn tparams(&self, t: &Option<annotation::TypeParameters>) -> String {
    match t {
      None => String::new(),
      Some(t) => format!(
        " (tparams {})",
        t.parameters
          .iter()
          .map(|p| match &p.bound {
            None => self.s(p.name.name).to_string(),
            Some(b) => format!("({} : {})", self.s(p.name.name), self.id_annot(b)),
          })
          .collect::<Vec<_>>()
          .join(" ")
      ),
    }
  }

  fn decl(&self, d: &ClassMemberDeclaration) -> String {
    format!(
      "({}{} {}{} ({}) {})",
      if d.is_public { "" } else { "private " },
      if d.is_method { "method" } else { "function" },
      self.s(d.name.name),
      self.tparams(&d.type_parameters),
      d.parameters.parameters.iter().map(|p| format!("({} {})", self.s(p.name.name), self.annot(&p.annotation))).collect::<Vec<_>>().join(" "),
      self.annot(&d.return_type)
    )
  }

  fn id_annot(&self, i: &annotation::Id) -> String {
    let targs = match &i.type_arguments {
      None => String::new(),
      Some(t) => format!("<{}>", t.arguments.iter().map(|a| self.annot(a)).collect::<Vec<_>>().join(",")),
    };
    format!("{}{}{}", self.s(i.id.name), self.mr(i.module_reference), targs)
  }

  pub fn annot(&self, a: &annotation::T) -> String {
    match a {
      annotation::T::Primitive(_, _, k) => k.kind_str().to_string(),
      annotation::T::Id(i) => self.id_annot(i),
      // whether a bare upper id is a type parameter or a class is derived from scope, not syntax
      annotation::T::Generic(_, id) => self.s(id.name).to_string(),
      annotation::T::Fn(f) => format!("(({}) -> {})", f.parameters.annotations.iter().map(|a| self.annot(a)).collect::<Vec<_>>().join(","), self.annot(&f.return_type)),
    }
  }

  fn targs(&self, t: &Option<annotation::TypeArguments>) -> String {
    match t {
      None => String::new(),
      Some(t) => format!("<{}>", t.arguments.iter().map(|a| self.annot(a)).collect::<Vec<_>>().join(",")),
    }
  }

  pub fn pattern(&self, p: &pattern::MatchingPattern<()>) -> String {
    match p {
      pattern::MatchingPattern::Tuple(t) => format!("(tuple {})", t.elements.iter().map(|e| self.pattern(&e.pattern)).collect::<Vec<_>>().join(" ")),
      pattern::MatchingPattern::Object { elements, .. } => format!(
        "(object {})",
        elements
          .iter()
          .map(|e| {
            // `{a}` and `{a as a}` denote the same pattern
            format!("({} as {})", self.s(e.field_name.name), self.pattern(&e.pattern))
          })
          .collect::<Vec<_>>()
          .join(" ")
      ),
      pattern::MatchingPattern::Variant(v) => match &v.data_variables {
        None => format!("(variant {})", self.s(v.tag.name)),
        Some(t) => format!("(variant {} {})", self.s(v.tag.name), t.elements.iter().map(|e| self.pattern(&e.pattern)).collect::<Vec<_>>().join(" ")),
      },
      pattern::MatchingPattern::Id(id, _) => format!("(bind {})", self.s(id.name)),
      pattern::MatchingPattern::Wildcard { .. } => "_".to_string(),
      pattern::MatchingPattern::Or { patterns, .. } => format!("(or {})", patterns.iter().map(|p| self.pattern(p)).collect::<Vec<_>>().join(" ")),
    }
  }

  fn block(&self, b: &expr::Block<()>) -> String {
    let mut out = String::from("(block");
    for s in &b.statements {
      match s {
        expr::Statement::Declaration(d) => {
          out.push_str(&format!(
            " (let {}{} {})",
            self.pattern(&d.pattern),
            d.annotation.as_ref().map(|a| format!(" : {}", self.annot(a))).unwrap_or_default(),
            self.expr(&d.assigned_expression)
          ));
        }
        expr::Statement::Expression(e) => out.push_str(&format!(" (stmt {})", self.expr(e))),
      }
    }
    if let Some(e) = &b.expression {
      out.push_str(&format!(" (final {})", self.expr(e)));
    }
    out.push(')');
    out
  }

  fn if_else(&self, e: &expr::IfElse<()>) -> String {
    let cond = match e.condition.as_ref() {
      expr::IfElseCondition::Expression(c) => self.expr(c),
      expr::IfElseCondition::Guard(p, c) => format!("(let {} {})", self.pattern(p), self.expr(c)),
    };
    let e2 = match e.e2.as_ref() {
      expr::IfElseOrBlock::IfElse(i) => self.if_else(i),
      expr::IfElseOrBlock::Block(b) => self.block(b),
    };
    format!("(if {} {} {})", cond, self.block(&e.e1), e2)
  }

  pub fn expr(&self, e: &expr::E<()>) -> String {
    match e {
      expr::E::Literal(_, Literal::Bool(b)) => format!("{b}"),
      expr::E::Literal(_, Literal::Int(i)) => format!("{i}"),
      expr::E::Literal(_, Literal::String(s)) => format!("(str {:?})", self.s(*s)),
      expr::E::LocalId(_, id) => format!("(var {})", self.s(id.name)),
      expr::E::ClassId(_, m, id) => format!("(cls {}{})", self.s(id.name), self.mr(*m)),
      expr::E::Tuple(_, l) => format!("(tuple {})", l.expressions.iter().map(|x| self.expr(x)).collect::<Vec<_>>().join(" ")),
      expr::E::FieldAccess(f) => format!("(. {} {}{})", self.expr(&f.object), self.s(f.field_name.name), self.targs(&f.explicit_type_arguments)),
      expr::E::MethodAccess(f) => format!("(. {} {}{})", self.expr(&f.object), self.s(f.method_name.name), self.targs(&f.explicit_type_arguments)),
      expr::E::Unary(u) => format!("({} {})", u.operator.kind_str(), self.expr(&u.argument)),
      expr::E::Call(c) => format!("(call {} [{}])", self.expr(&c.callee), c.arguments.expressions.iter().map(|x| self.expr(x)).collect::<Vec<_>>().join(" ")),
      expr::E::Binary(b) => format!("({} {} {})", b.operator.kind_str(), self.expr(&b.e1), self.expr(&b.e2)),
      expr::E::IfElse(i) => self.if_else(i),
      expr::E::Match(m) => format!(
        "(match {} {})",
        self.expr(&m.matched),
        m.cases.iter().map(|c| format!("({} -> {})", self.pattern(&c.pattern), self.expr(&c.body))).collect::<Vec<_>>().join(" ")
      ),
      expr::E::Lambda(l) => format!(
        "(lambda ({}) {})",
        l.parameters
          .parameters
          .iter()
          .map(|p| match &p.annotation {
            None => self.s(p.name.name).to_string(),
            Some(a) => format!("({} : {})", self.s(p.name.name), self.annot(a)),
          })
          .collect::<Vec<_>>()
          .join(" "),
        self.expr(&l.body)
      ),
      expr::E::Block(b) => self.block(b),
    }
  }
}

/// First line on which two dumps differ (for reports).
pub fn first_diff(a: &str, b: &str) -> String {
  for (la, lb) in a.lines().zip(b.lines()) {
    if la != lb {
      // narrow to a window around the first differing byte
      let i = la.bytes().zip(lb.bytes()).position(|(x, y)| x != y).unwrap_or(la.len().min(lb.len()));
      let s = i.saturating_sub(60);
      let cut = |t: &str| {
        let mut st = s;
        while !t.is_char_boundary(st) {
          st -= 1;
        }
        let mut en = (i + 100).min(t.len());
        while !t.is_char_boundary(en) {
          en -= 1;
        }
        t[st..en].to_string()
      };
      return format!("before: …{}\nafter:  …{}", cut(la), cut(lb));
    }
  }
  format!("line count differs: {} vs {}", a.lines().count(), b.lines().count())
}
