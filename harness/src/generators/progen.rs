//! G1 – typed program generator. Builds a ProgramIr top-down from goal types so that every
//! program is well-typed by the specification's rules *by construction* (the checker is never
//! consulted). Termination by construction: members only call members completed earlier, plus
//! themselves through a strictly decreasing fuel parameter.

use super::ir::*;
use crate::engine::Tape;

#[derive(Clone, Debug)]
pub struct GenCfg {
  pub max_classes: usize,
  pub max_depth: u32,
  pub node_budget: i32,
  /// feature flags that are off where a recorded finding lives
  pub string_escapes: bool,
  pub non_ascii_strings: bool,
  pub wide_vec_ints: bool,
  pub unboxable_recursive_enum: bool,
  pub param_swap_tail_calls: bool,
  pub big_ints: bool,
  pub single_variant_pointer_enum: bool,
  pub rec_call_in_short_circuit: bool,
  pub tuple_typed_field: bool,
  pub lambda_this_in_generic_class: bool,
  pub lambda_this_in_enum_class: bool,
  pub fn_typed_field_in_generic_class: bool,
  pub fuel_in_base_case: bool,
  pub effects_in_rec_call_args: bool,
  pub derived_induction_args: bool,
  pub neg_division: bool,
  pub single_field_struct_payload: bool,
  pub possibly_zero_divisor: bool,
  /// `x % x` / `x / x` on the same variable (recorded C02 finding: folded to 0 / 1 although x may be zero)
  pub same_operand_division: bool,
  /// steer the universe towards shapes a fault kind needs
  pub force_interface: bool,
  pub force_multi_module: bool,
  pub force_hof: bool,
  /// `==` / `!=` on Vec values printed from main (element identity; only meaningful for the backend differential C04)
  pub vec_equality: bool,
}

impl Default for GenCfg {
  fn default() -> Self {
    GenCfg { max_classes: 5, max_depth: 4, node_budget: 220, string_escapes: false, non_ascii_strings: false, wide_vec_ints: false, unboxable_recursive_enum: true, param_swap_tail_calls: true, big_ints: true, single_variant_pointer_enum: true, rec_call_in_short_circuit: true, tuple_typed_field: true, lambda_this_in_generic_class: true, lambda_this_in_enum_class: true, fn_typed_field_in_generic_class: true, fuel_in_base_case: true, effects_in_rec_call_args: true, derived_induction_args: true, neg_division: true, single_field_struct_payload: true, possibly_zero_divisor: true, same_operand_division: true, force_interface: false, force_multi_module: false, force_hof: false, vec_equality: false }
  }
}

#[derive(Clone, Debug)]
struct FunSig {
  module: Vec<String>,
  class: String,
  /// class type parameters (for methods: receiver type arguments must be supplied)
  class_tparams: Vec<String>,
  name: String,
  is_method: bool,
  tparams: Vec<TParamDef>,
  params: Vec<Ty>,
  ret: Ty,
  /// index of the fuel parameter for recursive members
  fuel: Option<usize>,
}

#[derive(Clone, Debug)]
struct ClassSig {
  module: Vec<String>,
  name: String,
  tparams: Vec<String>,
  typedef: TypeDef,
  /// implements Cmp<Self>
  comparable: bool,
}

impl ClassSig {
  fn ty(&self, args: Vec<Ty>) -> Ty {
    Ty::Class(self.module.clone(), self.name.clone(), args)
  }
}

pub struct Gen<'t> {
  t: &'t mut Tape,
  cfg: GenCfg,
  classes: Vec<ClassSig>,
  funs: Vec<FunSig>,
  counter: u32,
  budget: i32,
  has_cmp: bool,
  cmp_module: Vec<String>,
  /// module of the higher-order helper class `Hof` (implicit type arguments + hinted lambdas)
  hof_module: Option<Vec<String>>,
  pub features: Vec<&'static str>,
}

type Env = Vec<(String, Ty)>;

struct Ctx {
  env: Env,
  this: Option<Ty>,
  /// type parameters in scope (class + member)
  tparams: Vec<String>,
  /// the member being defined (for fuel recursion): index into funs, fuel variable name
  rec: Option<(FunSig, String)>,
  rec_used: bool,
  in_lambda: bool,
  /// type parameters bounded by Cmp<Self>
  bounded: Vec<String>,
  /// the enclosing class has type parameters
  class_generic: bool,
  class_is_enum: bool,
  /// generate no printing / calling code (used where a recorded finding drops effects)
  no_effects: bool,
  /// inside `cmp` itself: no cmp calls (they would recurse without fuel)
  in_cmp: bool,
}

const STRS: &[&str] = &["", "a", "hello", "x y", "samlang", "0", "-7", "end."];

impl<'t> Gen<'t> {
  pub fn new(t: &'t mut Tape, cfg: GenCfg) -> Gen<'t> {
    let budget = cfg.node_budget;
    Gen { t, cfg, classes: vec![], funs: vec![], counter: 0, budget, has_cmp: false, cmp_module: vec![], hof_module: None, features: vec![] }
  }

  fn feat(&mut self, f: &'static str) {
    if !self.features.contains(&f) {
      self.features.push(f);
    }
  }

  fn fresh(&mut self, base: &str) -> String {
    self.counter += 1;
    if self.t.bool(1, 12) { format!("{base}{}AVeryLongLocalName", self.counter) } else { format!("{base}{}", self.counter) }
  }

  // ------------------------------------------------------------------ types

  fn prim(&mut self) -> Ty {
    [Ty::Int, Ty::Int, Ty::Bool, Ty::Str][self.t.choose(4)].clone()
  }

  /// a type usable for fields / parameters, built from what exists so far
  fn pool_type(&mut self, tparams: &[String], depth: u32) -> Ty {
    let valued: Vec<ClassSig> = self.classes.iter().filter(|c| !matches!(c.typedef, TypeDef::None)).cloned().collect();
    let n = valued.len();
    let w_class = if n > 0 { 6 } else { 0 };
    match self.t.weighted(&[10, w_class, 2, if tparams.is_empty() { 0 } else { 4 }, if depth < 1 { 2 } else { 0 }, if depth < 1 { 1 } else { 0 }, if depth < 1 { 2 } else { 0 }]) {
      0 => self.prim(),
      1 => {
        let i = self.t.choose(n);
        let c = valued[i].clone();
        let args = c.tparams.iter().map(|_| self.simple_targ(tparams)).collect();
        c.ty(args)
      }
      2 => {
        let k = 2 + self.t.choose(2);
        Ty::Tuple((0..k).map(|_| self.prim()).collect())
      }
      3 => Ty::TParam(tparams[self.t.choose(tparams.len())].clone()),
      4 => {
        // signatures that also occur as member signatures, so that references are possible
        let sigs: Vec<(Vec<Ty>, Ty)> = self.funs.iter().filter(|f| f.tparams.is_empty() && f.class_tparams.is_empty() && f.fuel.is_none() && f.params.len() <= 2 && !f.params.iter().any(super::progen::contains_tparam) && !super::progen::contains_tparam(&f.ret)).map(|f| (f.params.clone(), f.ret.clone())).collect();
        if !sigs.is_empty() && self.t.bool(1, 2) {
          let (p, r) = sigs[self.t.choose(sigs.len())].clone();
          Ty::Fn(p, Box::new(r))
        } else {
          Ty::Fn(vec![Ty::Int], Box::new(self.prim()))
        }
      }
      5 => Ty::Vec(Box::new(Ty::Int)),
      _ => Ty::Class(vec!["std".into(), "option".into()], "Option".into(), vec![self.prim()]),
    }
  }

  fn simple_targ(&mut self, tparams: &[String]) -> Ty {
    let n = self.classes.iter().filter(|c| c.tparams.is_empty() && !matches!(c.typedef, TypeDef::None)).count();
    match self.t.weighted(&[6, if n > 0 { 3 } else { 0 }, if tparams.is_empty() { 0 } else { 2 }]) {
      0 => self.prim(),
      1 => {
        let cands: Vec<ClassSig> = self.classes.iter().filter(|c| c.tparams.is_empty() && !matches!(c.typedef, TypeDef::None)).cloned().collect();
        cands[self.t.choose(cands.len())].ty(vec![])
      }
      _ => Ty::TParam(tparams[self.t.choose(tparams.len())].clone()),
    }
  }

  // ------------------------------------------------------------------ program

  pub fn program(&mut self) -> ProgramIr {
    let nmods = if self.cfg.force_multi_module { 2 + self.t.choose(2) } else { 1 + self.t.weighted(&[5, 3, 2]) };
    let paths: Vec<Vec<String>> = (0..nmods).map(|i| if i == 1 { vec!["lib".to_string(), format!("M{i}")] } else { vec![format!("M{i}")] }).collect();
    let mut modules: Vec<ModuleIr> = paths.iter().map(|p| ModuleIr { path: p.clone(), classes: vec![] }).collect();
    let nclasses = 1 + self.t.small_len(self.cfg.max_classes - 1);
    // optional interface
    if self.t.bool(2, 5) || self.cfg.force_interface {
      self.has_cmp = true;
      self.cmp_module = paths[0].clone();
      self.feat("interface+bounded-generics");
      modules[0].classes.push(Class {
        name: "Cmp".into(),
        is_interface: true,
        private: false,
        tparams: vec![TParamDef { name: "T".into(), bound: None }],
        typedef: TypeDef::None,
        implements: vec![],
        members: vec![Member { name: "cmp".into(), is_method: true, is_public: true, tparams: vec![], params: vec![("other".into(), Ty::TParam("T".into()))], ret: Ty::Int, body: None }],
      });
    }
    if self.t.bool(1, 2) || self.cfg.force_hof {
      self.hof_module = Some(paths[0].clone());
      self.feat("inference:implicit-targs+hinted-lambda");
      let tp = |n: &str| TParamDef { name: n.into(), bound: None };
      let t_ = |n: &str| Ty::TParam(n.into());
      let var = |n: &str, t: Ty| Expr::new(t, EK::Var(n.into()));
      let call = |f: Expr, args: Vec<Expr>, r: Ty| Expr::new(r, EK::CallValue { callee: Box::new(f), args });
      let ft = Ty::Fn(vec![t_("T")], Box::new(t_("T")));
      let f2 = Ty::Fn(vec![t_("A"), t_("B")], Box::new(t_("A")));
      modules[0].classes.push(Class {
        name: "Hof".into(),
        is_interface: false,
        private: false,
        tparams: vec![],
        typedef: TypeDef::None,
        implements: vec![],
        members: vec![
          Member {
            name: "applyTwice".into(),
            is_method: false,
            is_public: true,
            tparams: vec![tp("T")],
            params: vec![("f".into(), ft.clone()), ("x".into(), t_("T"))],
            ret: t_("T"),
            body: Some(call(var("f", ft.clone()), vec![call(var("f", ft.clone()), vec![var("x", t_("T"))], t_("T"))], t_("T"))),
          },
          Member {
            name: "foldPair".into(),
            is_method: false,
            is_public: true,
            tparams: vec![tp("A"), tp("B")],
            params: vec![("f".into(), f2.clone()), ("init".into(), t_("A")), ("b".into(), t_("B"))],
            ret: t_("A"),
            body: Some(call(var("f", f2.clone()), vec![var("init", t_("A")), var("b", t_("B"))], t_("A"))),
          },
        ],
      });
    }
    for i in 0..nclasses {
      let mi = if nmods == 1 { 0 } else { (i * nmods / nclasses.max(1)).min(nmods - 1) };
      let class = self.class(&paths[mi], i);
      modules[mi].classes.push(class);
    }
    // entry
    let entry = paths[nmods - 1].clone();
    let main = self.main_class(&entry);
    modules[nmods - 1].classes.push(main);
    ProgramIr { modules, entry }
  }

  fn class(&mut self, module: &[String], idx: usize) -> Class {
    let name = format!("C{idx}");
    let generic = self.t.bool(1, 3);
    let tparams: Vec<String> = if generic { vec!["T".into()] } else { vec![] };
    let kind = self.t.weighted(&[4, 5, 2]);
    let self_ty = Ty::Class(module.to_vec(), name.clone(), tparams.iter().map(|p| Ty::TParam(p.clone())).collect());
    let typedef = match kind {
      0 => {
        self.feat("struct-class");
        let mut n = 1 + self.t.choose(3);
        // recorded finding (C04): a one-field struct reaching an unboxed enum payload (also through a
        // type argument) is `[v]` in the TypeScript backend, and `[0] == 0` holds in JavaScript
        if !self.cfg.single_field_struct_payload {
          n = n.max(2);
        }
        let mut fields = vec![];
        for j in 0..n {
          let mut ty = if generic && j == 0 { Ty::TParam("T".into()) } else { self.pool_type(&tparams, 0) };
          if matches!(ty, Ty::Tuple(_)) {
            if self.cfg.tuple_typed_field {
              self.feat("struct-field:tuple");
            } else {
              ty = Ty::Int;
            }
          }
          if generic && matches!(ty, Ty::Fn(..)) {
            if self.cfg.fn_typed_field_in_generic_class {
              self.feat("generic-struct-field:fn");
            } else {
              ty = Ty::Int;
            }
          }
          fields.push((format!("f{j}"), ty, !self.t.bool(1, 8)));
        }
        TypeDef::Struct(fields)
      }
      1 => {
        let mut shape = self.t.choose(8);
        if shape == 1 && !self.cfg.single_variant_pointer_enum {
          shape = 3;
        }
        let mut vs: Vec<(String, Vec<Ty>)> = vec![];
        let tag = |j: usize| format!("V{idx}x{j}");
        match shape {
          0 => {
            // 0-ary variants only
            self.feat("enum:0-ary-only");
            for j in 0..1 + self.t.choose(4) {
              vs.push((tag(j), vec![]));
            }
          }
          1 => {
            // a single variant with one pointer payload
            self.feat("enum:single-variant-pointer-payload");
            let p = self.pointer_type(&tparams);
            vs.push((tag(0), vec![p]));
          }
          2 => {
            // one pointer-payload variant among 0-ary ones (unboxing candidate)
            self.feat("enum:one-pointer-payload+0-ary");
            let k = 1 + self.t.choose(3);
            let at = self.t.choose(k + 1);
            for j in 0..=k {
              if j == at {
                let p = if self.cfg.unboxable_recursive_enum && self.t.bool(1, 3) {
                  self.feat("enum:unboxable-recursive");
                  self_ty.clone()
                } else {
                  self.pointer_type(&tparams)
                };
                vs.push((tag(j), vec![p]));
              } else {
                vs.push((tag(j), vec![]));
              }
            }
            // keep a non-recursive first variant so the type is inhabited
            if vs[0].1.first() == Some(&self_ty) {
              vs.swap(0, 1);
            }
          }
          3 => {
            self.feat("enum:single-int-payload");
            vs.push((tag(0), vec![]));
            vs.push((tag(1), vec![Ty::Int]));
          }
          4 => {
            // directly recursive (list / tree like)
            self.feat("enum:recursive");
            vs.push((tag(0), if self.t.bool(1, 2) { vec![] } else { vec![self.prim()] }));
            let mut payload = vec![if generic { Ty::TParam("T".into()) } else { self.prim() }, self_ty.clone()];
            if self.t.bool(1, 3) {
              payload.push(self_ty.clone());
            }
            vs.push((tag(1), payload));
          }
          _ => {
            self.feat("enum:mixed-payloads");
            let k = 2 + self.t.choose(3);
            for j in 0..k {
              // a variant sometimes repeats the previous payload (lets or-patterns bind variables)
              if j > 0 && !vs[j - 1].1.is_empty() && self.t.bool(1, 3) {
                let payload = vs[j - 1].1.clone();
                vs.push((tag(j), payload));
                continue;
              }
              let arity = self.t.choose(4);
              let mut payload = vec![];
              for a in 0..arity {
                payload.push(if generic && a == 0 && j == 1 { Ty::TParam("T".into()) } else { self.pool_type(&tparams, 0) });
              }
              vs.push((tag(j), payload));
            }
          }
        }
        TypeDef::Enum(vs)
      }
      _ => TypeDef::None,
    };
    let is_util = matches!(typedef, TypeDef::None);
    let tparams = if is_util { vec![] } else { tparams };
    let self_ty = Ty::Class(module.to_vec(), name.clone(), tparams.iter().map(|p| Ty::TParam(p.clone())).collect());
    let comparable = self.has_cmp && !is_util && tparams.is_empty() && (self.t.bool(1, 2) || self.cfg.force_interface);
    let sig = ClassSig { module: module.to_vec(), name: name.clone(), tparams: tparams.clone(), typedef: typedef.clone(), comparable };
    self.classes.push(sig);
    let mut members = vec![];
    if comparable {
      // method cmp(other: Self): int
      let fs = FunSig { module: module.to_vec(), class: name.clone(), class_tparams: vec![], name: "cmp".into(), is_method: true, tparams: vec![], params: vec![self_ty.clone()], ret: Ty::Int, fuel: None };
      let m = self.member(&fs, &self_ty, vec!["other".to_string()]);
      self.funs.push(fs);
      members.push(m);
    }
    let nmem = 1 + self.t.small_len(2);
    for k in 0..nmem {
      let is_method = !is_util && self.t.bool(1, 2);
      let mut mtparams: Vec<TParamDef> = vec![];
      let mut scope_tparams = tparams.clone();
      if !is_method {
        scope_tparams.clear();
      }
      if self.t.bool(1, 5) || (self.cfg.force_interface && !is_method && self.t.bool(1, 2)) {
        let bound = if self.has_cmp && (self.t.bool(1, 2) || self.cfg.force_interface) {
          Some(Ty::Class(self.cmp_module.clone(), "Cmp".into(), vec![Ty::TParam("U".into())]))
        } else {
          None
        };
        mtparams.push(TParamDef { name: "U".into(), bound });
        scope_tparams.push("U".into());
        self.feat("generic-member");
      }
      let recursive = self.t.bool(2, 5);
      let mut params: Vec<Ty> = vec![];
      let nparams = self.t.choose(4);
      for _ in 0..nparams {
        let ty = self.pool_type(&scope_tparams, 0);
        params.push(ty);
      }
      // a member with a type parameter needs a value of it
      for tp in &mtparams {
        if !params.contains(&Ty::TParam(tp.name.clone())) {
          params.push(Ty::TParam(tp.name.clone()));
          if tp.bound.is_some() {
            params.push(Ty::TParam(tp.name.clone()));
          }
        }
      }
      let fuel = if recursive {
        params.insert(0, Ty::Int);
        Some(0)
      } else {
        None
      };
      let ret = match self.t.weighted(&[6, 3, 3, 1, if is_util { 0 } else { 3 }, 2, if mtparams.is_empty() { 0 } else { 3 }]) {
        0 => Ty::Int,
        1 => Ty::Bool,
        2 => Ty::Str,
        3 => Ty::Unit,
        4 => self_ty.clone(),
        5 => self.pool_type(&scope_tparams, 0),
        _ => Ty::TParam("U".into()),
      };
      // static functions of generic classes do not see the class type parameters
      let ret = if !is_method { strip_tparams(&ret, &scope_tparams) } else { ret };
      let params: Vec<Ty> = params.into_iter().map(|p| if !is_method { strip_tparams(&p, &scope_tparams) } else { p }).collect();
      let fs = FunSig {
        module: module.to_vec(),
        class: name.clone(),
        class_tparams: tparams.clone(),
        name: format!("m{k}"),
        is_method,
        tparams: mtparams,
        params,
        ret,
        fuel,
      };
      let names: Vec<String> = (0..fs.params.len()).map(|i| if fs.fuel == Some(i) { "n".to_string() } else { format!("p{i}") }).collect();
      let m = self.member(&fs, &self_ty, names);
      self.funs.push(fs);
      members.push(m);
    }
    let implements = if comparable { vec![Ty::Class(self.cmp_module.clone(), "Cmp".into(), vec![self_ty.clone()])] } else { vec![] };
    Class { name, is_interface: false, private: false, tparams: tparams.iter().map(|n| TParamDef { name: n.clone(), bound: None }).collect(), typedef, implements, members }
  }

  /// a reference type (class instance / tuple / Str / fn): candidates for unboxed enum payloads
  fn pointer_type(&mut self, tparams: &[String]) -> Ty {
    // recorded finding: an unboxed payload whose own representation can be a small integer (an enum with
    // 0-ary variants, incl. the enum itself) collides with the 0-ary variants of the outer enum
    let enums_ok = self.cfg.unboxable_recursive_enum;
    // recorded finding (C04): the TypeScript backend compares enum tags with `==`, and `[1] == 1` holds in JavaScript
    let single_ok = self.cfg.single_field_struct_payload;
    let structs: Vec<ClassSig> = self
      .classes
      .iter()
      .filter(|c| match &c.typedef {
        TypeDef::Struct(fs) => single_ok || fs.len() != 1,
        TypeDef::Enum(_) => enums_ok,
        TypeDef::None => false,
      })
      .cloned()
      .collect();
    match self.t.weighted(&[if structs.is_empty() { 0 } else { 6 }, 2, 2, 1]) {
      0 => {
        let c = structs[self.t.choose(structs.len())].clone();
        let args = c.tparams.iter().map(|_| self.simple_targ(tparams)).collect();
        c.ty(args)
      }
      1 => Ty::Str,
      2 => Ty::Tuple(vec![Ty::Int, self.prim()]),
      _ => Ty::Fn(vec![Ty::Int], Box::new(Ty::Int)),
    }
  }

  fn member(&mut self, fs: &FunSig, self_ty: &Ty, names: Vec<String>) -> Member {
    let params: Vec<(String, Ty)> = names.into_iter().zip(fs.params.iter().cloned()).collect();
    let mut tps: Vec<String> = if fs.is_method { fs.class_tparams.clone() } else { vec![] };
    tps.extend(fs.tparams.iter().map(|t| t.name.clone()));
    let mut cx = Ctx {
      env: params.clone(),
      this: if fs.is_method { Some(self_ty.clone()) } else { None },
      tparams: tps,
      rec: fs.fuel.map(|i| (fs.clone(), params[i].0.clone())),
      rec_used: false,
      in_lambda: false,
      bounded: fs.tparams.iter().filter(|t| t.bound.is_some()).map(|t| t.name.clone()).collect(),
      class_generic: fs.is_method && !fs.class_tparams.is_empty(),
      class_is_enum: fs.is_method && self.classes.iter().any(|c| c.module == fs.module && c.name == fs.class && matches!(c.typedef, TypeDef::Enum(_))),
      no_effects: false,
      in_cmp: fs.name == "cmp",
    };
    self.budget = self.cfg.node_budget / 3;
    let body = if let Some(fi) = fs.fuel {
      self.feat("fuel-recursion");
      let n = params[fi].0.clone();
      // if n <= 0 { base } else { step (may call itself with n - 1) }
      cx.rec = None;
      // recorded finding: re-using the loop guard's comparison (`n <= 0`) as the result of the base case
      let hidden = if self.cfg.fuel_in_base_case { None } else { Some(cx.env.remove(fi)) };
      let base = self.expr(&fs.ret, &mut cx, 1);
      if let Some(h) = hidden {
        cx.env.insert(fi, h);
      }
      cx.rec = Some((fs.clone(), n.clone()));
      let step = self.rec_step(fs, &mut cx);
      Expr::new(
        fs.ret.clone(),
        EK::If { cond: Box::new(Expr::new(Ty::Bool, EK::Binary("<=", Box::new(Expr::new(Ty::Int, EK::Var(n))), Box::new(Expr::new(Ty::Int, EK::Int(0)))))), then: Box::new(base), els: Box::new(step) },
      )
    } else {
      let d = self.cfg.max_depth;
      self.expr(&fs.ret, &mut cx, d)
    };
    Member { name: fs.name.clone(), is_method: fs.is_method, is_public: true, tparams: fs.tparams.clone(), params, ret: fs.ret.clone(), body: Some(body) }
  }

  fn self_call(&mut self, fs: &FunSig, cx: &mut Ctx, args_rest: Vec<Expr>) -> Expr {
    let (_, n) = cx.rec.clone().unwrap();
    let dec = Expr::new(Ty::Int, EK::Binary("-", Box::new(Expr::new(Ty::Int, EK::Var(n))), Box::new(Expr::new(Ty::Int, EK::Int(1)))));
    let mut args = vec![dec];
    args.extend(args_rest);
    cx.rec_used = true;
    if fs.is_method {
      Expr::new(fs.ret.clone(), EK::MethodCall { recv: Box::new(Expr::new(cx.this.clone().unwrap(), EK::This)), method: fs.name.clone(), targs: vec![], args })
    } else {
      let targs: Vec<Ty> = fs.tparams.iter().map(|t| Ty::TParam(t.name.clone())).collect();
      Expr::new(fs.ret.clone(), EK::StaticCall { module: fs.module.clone(), class: fs.class.clone(), member: fs.name.clone(), targs, args })
    }
  }

  /// the recursive step: tail call with accumulator-style arguments, or a non-tail combination
  fn rec_step(&mut self, fs: &FunSig, cx: &mut Ctx) -> Expr {
    let rest: Vec<(String, Ty)> = cx.env.iter().skip(1).take(fs.params.len() - 1).cloned().collect();
    let saved = cx.rec.take();
    let mut args = vec![];
    let style = self.t.choose(4);
    // recorded finding: a recursive-call argument computed from the loop counter (derived induction variable)
    let fuel_pos = cx.env.iter().position(|(n, _)| saved.as_ref().map(|(_, f)| f == n).unwrap_or(false));
    let hidden_fuel = if self.cfg.derived_induction_args {
      self.feat("recursion:args-may-use-counter");
      None
    } else {
      fuel_pos.map(|i| (i, cx.env.remove(i)))
    };
    let was_no_effects = cx.no_effects;
    if !self.cfg.effects_in_rec_call_args {
      cx.no_effects = true;
    } else {
      self.feat("recursion:effects-in-args-possible");
    }
    for (i, (name, ty)) in rest.iter().enumerate() {
      // argument i of the recursive call
      let e = match style {
        // pass through
        0 => Expr::new(ty.clone(), EK::Var(name.clone())),
        // permutation / direct use of *other* parameters of the same type (loop-variable hazard)
        1 if self.cfg.param_swap_tail_calls => {
          let same: Vec<&(String, Ty)> = rest.iter().filter(|(n2, t2)| t2 == ty && n2 != name).collect();
          if !same.is_empty() {
            self.feat("tail-call:param-permutation");
            let pick = same[(i + 1) % same.len()].0.clone();
            Expr::new(ty.clone(), EK::Var(pick))
          } else {
            self.expr(ty, cx, 1)
          }
        }
        _ => self.expr(ty, cx, 2),
      };
      args.push(e);
    }
    cx.rec = saved;
    cx.no_effects = was_no_effects;
    if let Some((i, e)) = hidden_fuel {
      cx.env.insert(i, e);
    }
    let call = self.self_call(fs, cx, args);
    // the result of the recursive call is discarded and the step yields its own (often literal) value
    if self.t.bool(1, 9) {
      self.feat("recursion:result-discarded");
      let saved = cx.rec.take();
      let value = if self.t.bool(2, 3) { self.leaf(&fs.ret, cx) } else { self.expr(&fs.ret, cx, 1) };
      cx.rec = saved;
      let mut stmts = vec![];
      if self.cfg.effects_in_rec_call_args && self.t.bool(1, 2) {
        stmts.push(Stmt::Expr(self.println_of_env(cx)));
      }
      stmts.push(Stmt::Let { pat: Pat::Wild, annot: None, init: call });
      return Expr::new(fs.ret.clone(), EK::Block { stmts, last: Some(Box::new(value)) });
    }
    let tail = self.t.bool(1, 2);
    if tail {
      self.feat("recursion:tail");
      // optionally print before recursing
      if self.cfg.effects_in_rec_call_args && self.t.bool(1, 3) {
        let p = self.println_of_env(cx);
        return Expr::new(fs.ret.clone(), EK::Block { stmts: vec![Stmt::Expr(p)], last: Some(Box::new(call)) });
      }
      call
    } else {
      self.feat("recursion:non-tail");
      match &fs.ret {
        Ty::Int => {
          let saved = cx.rec.take();
          let other = self.expr(&Ty::Int, cx, 1);
          cx.rec = saved;
          let op = ["+", "-", "*"][self.t.choose(3)];
          let (a, b) = if self.t.bool(1, 2) { (call, other) } else { (other, call) };
          Expr::new(Ty::Int, EK::Binary(op, Box::new(a), Box::new(b)))
        }
        Ty::Str => {
          let saved = cx.rec.take();
          let other = self.expr(&Ty::Str, cx, 1);
          cx.rec = saved;
          Expr::new(Ty::Str, EK::Binary("::", Box::new(other), Box::new(call)))
        }
        Ty::Bool => {
          let saved = cx.rec.take();
          let other = self.expr(&Ty::Bool, cx, 1);
          cx.rec = saved;
          if self.cfg.rec_call_in_short_circuit {
            self.feat("recursion:in-short-circuit");
            Expr::new(Ty::Bool, EK::Binary(["&&", "||"][self.t.choose(2)], Box::new(other), Box::new(call)))
          } else {
            Expr::new(Ty::Bool, EK::If { cond: Box::new(other), then: Box::new(call), els: Box::new(Expr::new(Ty::Bool, EK::Bool(false))) })
          }
        }
        other => {
          let v = self.fresh("r");
          let saved = cx.rec.take();
          cx.env.push((v.clone(), other.clone()));
          let last = self.expr(other, cx, 1);
          cx.env.pop();
          cx.rec = saved;
          Expr::new(other.clone(), EK::Block { stmts: vec![Stmt::Let { pat: Pat::Var(v, other.clone()), annot: Some(other.clone()), init: call }], last: Some(Box::new(last)) })
        }
      }
    }
  }

  fn println_of_env(&mut self, cx: &mut Ctx) -> Expr {
    let saved = cx.rec.take();
    let s = self.expr(&Ty::Str, cx, 1);
    cx.rec = saved;
    println(s)
  }

  fn main_class(&mut self, module: &[String]) -> Class {
    let mut stmts = vec![];
    let mut cx = Ctx { env: vec![], this: None, tparams: vec![], rec: None, rec_used: false, in_lambda: false, bounded: vec![], class_generic: false, class_is_enum: false, no_effects: false, in_cmp: false };
    self.budget = self.cfg.node_budget;
    let funs: Vec<FunSig> = self.funs.clone();
    // call every member at least once where its arguments can be built, print what can be printed
    let mut order: Vec<usize> = (0..funs.len()).collect();
    if self.t.bool(1, 2) {
      order.reverse();
    }
    for i in order {
      let fs = funs[i].clone();
      let reps = 1 + self.t.choose(2);
      for _ in 0..reps {
        if let Some(call) = self.call_of(&fs, None, &mut cx, 2, true) {
          self.observe(call, &mut cx, &mut stmts);
        }
      }
    }
    if stmts.is_empty() {
      stmts.push(Stmt::Expr(println(Expr::new(Ty::Str, EK::Str("empty".into())))));
    }
    // a long string whose content depends on the position (numbers counting down, separated), longer than
    // the chunk sizes of the run-time's string conversion; printed (or used as a panic message) once
    let mut extra_members = vec![];
    if self.t.bool(1, 25) {
      self.feat("long-position-dependent-string");
      let n = [400, 1800, 2300, 3300, 5000][self.t.choose(5)];
      let sep = [",", " ", "-", ";;"][self.t.choose(4)];
      let var = |x: &str, ty: Ty| Expr::new(ty, EK::Var(x.into()));
      let int = |v: i32| Expr::new(Ty::Int, EK::Int(v));
      let cat = |a: Expr, b: Expr| Expr::new(Ty::Str, EK::Binary("::", Box::new(a), Box::new(b)));
      let call = |n: Expr, acc: Expr| Expr::new(Ty::Str, EK::StaticCall { module: module.to_vec(), class: "Main".into(), member: "buildLongString".into(), targs: vec![], args: vec![n, acc] });
      let piece = cat(cat(var("acc", Ty::Str), from_int(var("n", Ty::Int))), Expr::new(Ty::Str, EK::Str(sep.into())));
      let body = Expr::new(
        Ty::Str,
        EK::If {
          cond: Box::new(Expr::new(Ty::Bool, EK::Binary("<=", Box::new(var("n", Ty::Int)), Box::new(int(0))))),
          then: Box::new(var("acc", Ty::Str)),
          els: Box::new(call(Expr::new(Ty::Int, EK::Binary("-", Box::new(var("n", Ty::Int)), Box::new(int(1)))), piece)),
        },
      );
      extra_members.push(Member { name: "buildLongString".into(), is_method: false, is_public: true, tparams: vec![], params: vec![("n".into(), Ty::Int), ("acc".into(), Ty::Str)], ret: Ty::Str, body: Some(body) });
      let built = call(int(n), Expr::new(Ty::Str, EK::Str("".into())));
      let at = self.t.choose(stmts.len() + 1);
      stmts.insert(at, Stmt::Expr(println(built)));
    }
    // equality of Vec values whose elements are run-time strings built in different ways (the same
    // variable, an equal string built separately, the string concatenated with an empty one on either side)
    if self.cfg.vec_equality && self.t.bool(1, 10) {
      self.feat("vec-equality");
      let str_vec = Ty::Vec(Box::new(Ty::Str));
      let s = |x: &str| Expr::new(Ty::Str, EK::Str(x.into()));
      let cat = |a: Expr, b: Expr| Expr::new(Ty::Str, EK::Binary("::", Box::new(a), Box::new(b)));
      let var = |n: &str, ty: Ty| Expr::new(ty, EK::Var(n.into()));
      let base = cat(s(["a", "key", ""][self.t.choose(3)]), from_int(Expr::new(Ty::Int, EK::OpaqueInt(self.t.choose(50) as i32))));
      stmts.push(Stmt::Let { pat: Pat::Var("veqBase".into(), Ty::Str), annot: Some(Ty::Str), init: base.clone() });
      // an empty (or not) string the optimizer cannot see through
      let opaque_empty = |empty: bool| {
        Expr::new(
          Ty::Str,
          EK::If {
            cond: Box::new(Expr::new(Ty::Bool, EK::Binary("==", Box::new(Expr::new(Ty::Int, EK::OpaqueInt(if empty { 0 } else { 1 }))), Box::new(Expr::new(Ty::Int, EK::Int(0)))))),
            then: Box::new(Expr::new(Ty::Str, EK::Str(String::new()))),
            els: Box::new(Expr::new(Ty::Str, EK::Str("!".into()))),
          },
        )
      };
      let n = 2 + self.t.choose(3);
      for i in 0..n {
        let elem = match self.t.choose(6) {
          0 => var("veqBase", Ty::Str),
          1 => cat(opaque_empty(self.t.bool(3, 4)), var("veqBase", Ty::Str)),
          2 => cat(var("veqBase", Ty::Str), opaque_empty(self.t.bool(3, 4))),
          3 => base.clone(),
          4 => cat(var("veqBase", Ty::Str), s("x")),
          _ => s("lit"),
        };
        let init = Expr::new(str_vec.clone(), EK::StaticCall { module: vec![], class: "Vec".into(), member: "of".into(), targs: vec![Ty::Str], args: vec![elem] });
        stmts.push(Stmt::Let { pat: Pat::Var(format!("veq{i}"), str_vec.clone()), annot: Some(str_vec.clone()), init });
      }
      for _ in 0..1 + self.t.choose(4) {
        let (a, b) = (self.t.choose(n), self.t.choose(n));
        let op = ["==", "!="][self.t.choose(2)];
        // the builtin method `eq` (element-wise) or the operator (the Vec values themselves)
        let cmp = if self.t.bool(2, 3) {
          Expr::new(Ty::Bool, EK::MethodCall { recv: Box::new(var(&format!("veq{a}"), str_vec.clone())), method: "eq".into(), targs: vec![], args: vec![var(&format!("veq{b}"), str_vec.clone())] })
        } else {
          Expr::new(Ty::Bool, EK::Binary(op, Box::new(var(&format!("veq{a}"), str_vec.clone())), Box::new(var(&format!("veq{b}"), str_vec.clone()))))
        };
        stmts.push(Stmt::Expr(println(bool_str(cmp))));
      }
    }
    let body = Expr::new(Ty::Unit, EK::Block { stmts, last: None });
    let mut members = vec![Member { name: "main".into(), is_method: false, is_public: true, tparams: vec![], params: vec![], ret: Ty::Unit, body: Some(body) }];
    members.extend(extra_members);
    let main_members = members;
    Class {
      name: "Main".into(),
      is_interface: false,
      private: false,
      tparams: vec![],
      typedef: TypeDef::None,
      implements: vec![],
      members: main_members,
    }
    .with_module(module)
  }

  /// make the value observable: print ints/bools/strings, look into structures one level
  fn observe(&mut self, e: Expr, cx: &mut Ctx, stmts: &mut Vec<Stmt>) {
    match e.ty.clone() {
      Ty::Int => stmts.push(Stmt::Expr(println(from_int(e)))),
      Ty::Str => stmts.push(Stmt::Expr(println(e))),
      Ty::Bool => stmts.push(Stmt::Expr(println(bool_str(e)))),
      Ty::Unit => stmts.push(Stmt::Expr(e)),
      ty => {
        let v = self.fresh("o");
        stmts.push(Stmt::Let { pat: Pat::Var(v.clone(), ty.clone()), annot: Some(ty.clone()), init: e });
        cx.env.push((v.clone(), ty.clone()));
        // derive a printable from it
        let shown = self.show(&Expr::new(ty.clone(), EK::Var(v)), cx, 2);
        stmts.push(Stmt::Expr(println(shown)));
      }
    }
  }

  /// a Str expression describing a value (structural, bounded depth)
  fn show(&mut self, e: &Expr, cx: &mut Ctx, depth: u32) -> Expr {
    let s = |x: &str| Expr::new(Ty::Str, EK::Str(x.into()));
    let cat = |a: Expr, b: Expr| Expr::new(Ty::Str, EK::Binary("::", Box::new(a), Box::new(b)));
    match &e.ty {
      Ty::Int => from_int(e.clone()),
      Ty::Bool => bool_str(e.clone()),
      Ty::Str => e.clone(),
      Ty::Unit => s("unit"),
      Ty::Fn(ps, r) if depth > 0 && ps.iter().all(|p| matches!(p, Ty::Int | Ty::Bool | Ty::Str)) => {
        let args: Vec<Expr> = ps.iter().map(|p| self.leaf(p, cx)).collect();
        let call = Expr::new((**r).clone(), EK::CallValue { callee: Box::new(e.clone()), args });
        self.feat("closure-call");
        self.show(&call, cx, depth - 1)
      }
      Ty::Vec(t) if matches!(**t, Ty::Int) => from_int(Expr::new(Ty::Int, EK::MethodCall { recv: Box::new(e.clone()), method: "length".into(), targs: vec![], args: vec![] })),
      Ty::Tuple(ts) if depth > 0 => {
        let mut acc = s("(");
        for (i, t) in ts.iter().enumerate() {
          let f = Expr::new(t.clone(), EK::Field { obj: Box::new(e.clone()), field: format!("e{i}") });
          let sh = self.show(&f, cx, depth - 1);
          acc = cat(acc, sh);
          acc = cat(acc, s(if i + 1 < ts.len() { "," } else { ")" }));
        }
        acc
      }
      Ty::Class(m, n, args) if depth > 0 => {
        if let Some(c) = self.classes.iter().find(|c| &c.module == m && &c.name == n).cloned() {
          let map: Vec<(String, Ty)> = c.tparams.iter().cloned().zip(args.iter().cloned()).collect();
          match &c.typedef {
            TypeDef::Struct(fs) => {
              let mut acc = s(&format!("{n}{{"));
              for (fname, fty, public) in fs {
                let same_module = false;
                if !*public && !same_module {
                  continue;
                }
                let f = Expr::new(fty.subst(&map), EK::Field { obj: Box::new(e.clone()), field: fname.clone() });
                let sh = self.show(&f, cx, depth - 1);
                acc = cat(acc, sh);
                acc = cat(acc, s(";"));
              }
              cat(acc, s("}"))
            }
            TypeDef::Enum(vs) => {
              self.feat("match");
              let mut arms = vec![];
              for (tag, payload) in vs {
                let mut pats = vec![];
                let mut shown = s(tag);
                for pt in payload {
                  let pt = pt.subst(&map);
                  if depth > 1 && !matches!(pt, Ty::TParam(_)) {
                    let v = self.fresh("s");
                    pats.push(Pat::Var(v.clone(), pt.clone()));
                    let sh = self.show(&Expr::new(pt.clone(), EK::Var(v)), cx, depth - 2);
                    shown = cat(cat(shown, s(" ")), sh);
                  } else {
                    pats.push(Pat::Wild);
                  }
                }
                arms.push((Pat::Variant(tag.clone(), pats), shown));
              }
              Expr::new(Ty::Str, EK::Match { scrut: Box::new(e.clone()), arms })
            }
            TypeDef::None => s(n),
          }
        } else if n == "Option" && m.len() == 2 {
          self.feat("std-option");
          let inner = args[0].clone();
          let v = self.fresh("s");
          let sh = self.show(&Expr::new(inner.clone(), EK::Var(v.clone())), cx, depth - 1);
          Expr::new(Ty::Str, EK::Match { scrut: Box::new(e.clone()), arms: vec![(Pat::Variant("Some".into(), vec![Pat::Var(v, inner)]), cat(s("Some "), sh)), (Pat::Variant("None".into(), vec![]), s("None"))] })
        } else {
          s(n)
        }
      }
      other => s(&format!("<{}>", other.render().replace('"', ""))),
    }
  }
}

trait WithModule {
  fn with_module(self, m: &[String]) -> Self;
}
impl WithModule for Class {
  fn with_module(self, _m: &[String]) -> Self {
    self
  }
}

fn strip_tparams(t: &Ty, allowed: &[String]) -> Ty {
  match t {
    Ty::TParam(n) if !allowed.contains(n) => Ty::Int,
    Ty::Class(m, n, a) => Ty::Class(m.clone(), n.clone(), a.iter().map(|x| strip_tparams(x, allowed)).collect()),
    Ty::Fn(p, r) => Ty::Fn(p.iter().map(|x| strip_tparams(x, allowed)).collect(), Box::new(strip_tparams(r, allowed))),
    Ty::Vec(x) => Ty::Vec(Box::new(strip_tparams(x, allowed))),
    Ty::Tuple(ts) => Ty::Tuple(ts.iter().map(|x| strip_tparams(x, allowed)).collect()),
    _ => t.clone(),
  }
}

pub fn println(s: Expr) -> Expr {
  Expr::new(Ty::Unit, EK::StaticCall { module: vec![], class: "Process".into(), member: "println".into(), targs: vec![], args: vec![s] })
}

pub fn from_int(e: Expr) -> Expr {
  Expr::new(Ty::Str, EK::StaticCall { module: vec![], class: "Str".into(), member: "fromInt".into(), targs: vec![], args: vec![e] })
}

pub fn bool_str(e: Expr) -> Expr {
  Expr::new(Ty::Str, EK::If { cond: Box::new(e), then: Box::new(Expr::new(Ty::Str, EK::Str("true".into()))), els: Box::new(Expr::new(Ty::Str, EK::Str("false".into()))) })
}

// ---------------------------------------------------------------------- expressions

impl<'t> Gen<'t> {
  fn vars_of(&self, ty: &Ty, cx: &Ctx) -> Vec<String> {
    cx.env.iter().filter(|(n, t)| t == ty && cx.rec.as_ref().map(|(_, f)| f != n).unwrap_or(true)).map(|(n, _)| n.clone()).collect()
  }

  fn int_lit(&mut self) -> Expr {
    let v = match self.t.weighted(&[10, 6, if self.cfg.big_ints { 2 } else { 0 }]) {
      0 => self.t.choose(10) as i32,
      1 => [-1, -2, -7, 11, 17, 100, 255, 1000][self.t.choose(8)],
      _ => [1073741823, 1073741824, -1073741824, 2147483647, -2147483647, -2147483648, 65536, 46341][self.t.choose(8)],
    };
    if self.t.bool(1, 4) {
      self.feat("opaque-int");
      Expr::new(Ty::Int, EK::OpaqueInt(v))
    } else {
      Expr::new(Ty::Int, EK::Int(v))
    }
  }

  fn str_lit(&mut self) -> Expr {
    let mut s = STRS[self.t.choose(STRS.len())].to_string();
    if self.cfg.string_escapes && self.t.bool(1, 4) {
      s.push_str(["\n", "\t", "\"", "\\", "`", "${x}"][self.t.choose(6)]);
    }
    if self.cfg.non_ascii_strings && self.t.bool(1, 4) {
      s.push_str(["é", "日本", "→"][self.t.choose(3)]);
    }
    Expr::new(Ty::Str, EK::Str(s))
  }

  /// simplest closed-ish expression of a type
  fn leaf(&mut self, ty: &Ty, cx: &mut Ctx) -> Expr {
    let vars = self.vars_of(ty, cx);
    if !vars.is_empty() && self.t.bool(2, 3) {
      return Expr::new(ty.clone(), EK::Var(vars[self.t.choose(vars.len())].clone()));
    }
    if cx.this.as_ref() == Some(ty) && !cx.in_lambda_shadowed() && self.t.bool(1, 2) {
      return Expr::new(ty.clone(), EK::This);
    }
    match ty {
      Ty::Int => self.int_lit(),
      Ty::Bool => Expr::new(Ty::Bool, EK::Bool(self.t.bool(1, 2))),
      Ty::Str => self.str_lit(),
      Ty::Unit => Expr::new(Ty::Unit, EK::Block { stmts: vec![], last: None }),
      Ty::TParam(_) => {
        // must come from the environment; generator invariant guarantees one exists
        if let Some(v) = vars.first() {
          Expr::new(ty.clone(), EK::Var(v.clone()))
        } else if cx.this.as_ref() == Some(ty) {
          Expr::new(ty.clone(), EK::This)
        } else if let Some(e) = self.tparam_from_fields(ty, cx) {
          e
        } else {
          // unreachable by construction; keep the program well-formed anyway
          Expr::new(ty.clone(), EK::StaticCall { module: vec![], class: "Process".into(), member: "panic".into(), targs: vec![ty.clone()], args: vec![Expr::new(Ty::Str, EK::Str("no value".into()))] })
        }
      }
      Ty::Tuple(ts) => {
        self.feat("tuple");
        Expr::new(ty.clone(), EK::Tuple(ts.iter().map(|t| self.leaf(t, cx)).collect()))
      }
      Ty::Vec(t) => {
        self.feat("vec");
        if self.t.bool(1, 2) {
          // recorded finding: Vec<int> stores 31-bit integers on WebAssembly
          let x = if **t == Ty::Int && !self.cfg.wide_vec_ints { Expr::new(Ty::Int, EK::Int(self.t.choose(1000) as i32 - 500)) } else { self.leaf(t, cx) };
          Expr::new(ty.clone(), EK::StaticCall { module: vec![], class: "Vec".into(), member: "of".into(), targs: vec![(**t).clone()], args: vec![x] })
        } else {
          Expr::new(ty.clone(), EK::StaticCall { module: vec![], class: "Vec".into(), member: "empty".into(), targs: vec![(**t).clone()], args: vec![] })
        }
      }
      Ty::Fn(ps, r) => {
        self.feat("lambda");
        let params: Vec<(String, Ty)> = ps.iter().map(|p| (self.fresh("a"), p.clone())).collect();
        let n = params.len();
        cx.env.extend(params.iter().cloned());
        let was = cx.in_lambda;
        cx.in_lambda = true;
        let hidden_this = self.hide_this(cx);
        let saved = cx.rec.take();
        let body = self.leaf(r, cx);
        cx.rec = saved;
        cx.in_lambda = was;
        if hidden_this.is_some() {
          cx.this = hidden_this;
        }
        for _ in 0..n {
          cx.env.pop();
        }
        Expr::new(ty.clone(), EK::Lambda { params, annotated: true, body: Box::new(body) })
      }
      Ty::Class(m, n, args) => self.construct(m, n, args, cx, 0),
    }
  }

  fn tparam_from_fields(&mut self, ty: &Ty, cx: &Ctx) -> Option<Expr> {
    // this.f0 of type T inside a method of a generic struct
    let this = cx.this.clone()?;
    if let Ty::Class(m, n, _) = &this {
      let c = self.classes.iter().find(|c| &c.module == m && &c.name == n)?;
      if let TypeDef::Struct(fs) = &c.typedef {
        for (f, t, _) in fs {
          if t == ty {
            return Some(Expr::new(ty.clone(), EK::Field { obj: Box::new(Expr::new(this.clone(), EK::This)), field: f.clone() }));
          }
        }
      }
    }
    None
  }

  /// constructor call for a class type
  fn construct(&mut self, m: &[String], n: &str, args: &[Ty], cx: &mut Ctx, depth: u32) -> Expr {
    let ty = Ty::Class(m.to_vec(), n.to_string(), args.to_vec());
    if n == "Option" && m.len() == 2 && m[0] == "std" {
      self.feat("std-option");
      if depth > 0 || self.t.bool(1, 2) {
        let x = if depth > 0 { self.expr(&args[0], cx, depth - 1) } else { self.leaf(&args[0], cx) };
        return Expr::new(ty, EK::StaticCall { module: m.to_vec(), class: n.into(), member: "Some".into(), targs: args.to_vec(), args: vec![x] });
      }
      return Expr::new(ty, EK::StaticCall { module: m.to_vec(), class: n.into(), member: "None".into(), targs: args.to_vec(), args: vec![] });
    }
    if n == "Cmp" {
      // interface type: pick an implementing class
      if let Some(c) = self.classes.iter().find(|c| c.comparable).cloned() {
        return self.construct(&c.module, &c.name, &[], cx, depth);
      }
    }
    let Some(c) = self.classes.iter().find(|c| c.module == m && c.name == n).cloned() else {
      return Expr::new(ty.clone(), EK::StaticCall { module: vec![], class: "Process".into(), member: "panic".into(), targs: vec![ty], args: vec![Expr::new(Ty::Str, EK::Str("unknown class".into()))] });
    };
    let map: Vec<(String, Ty)> = c.tparams.iter().cloned().zip(args.iter().cloned()).collect();
    match &c.typedef {
      TypeDef::Struct(fs) => {
        let a: Vec<Expr> = fs.iter().map(|(_, t, _)| { let t = t.subst(&map); if depth > 0 { self.expr(&t, cx, depth - 1) } else { self.leaf(&t, cx) } }).collect();
        Expr::new(ty, EK::StaticCall { module: m.to_vec(), class: n.into(), member: "init".into(), targs: args.to_vec(), args: a })
      }
      TypeDef::Enum(vs) => {
        // depth 0: first (non-recursive by construction) variant
        let vi = if depth == 0 { 0 } else { self.t.choose(vs.len()) };
        let (tag, payload) = vs[vi].clone();
        let self_ty = c.ty(c.tparams.iter().map(|p| Ty::TParam(p.clone())).collect());
        let a: Vec<Expr> = payload
          .iter()
          .map(|t| {
            let recursive = *t == self_ty;
            let t = t.subst(&map);
            if depth > 0 { self.expr(&t, cx, if recursive { depth - 1 } else { depth.saturating_sub(1) }) } else { self.leaf(&t, cx) }
          })
          .collect();
        Expr::new(ty, EK::StaticCall { module: m.to_vec(), class: n.into(), member: tag, targs: args.to_vec(), args: a })
      }
      TypeDef::None => Expr::new(ty.clone(), EK::StaticCall { module: vec![], class: "Process".into(), member: "panic".into(), targs: vec![ty], args: vec![Expr::new(Ty::Str, EK::Str("utility class has no values".into()))] }),
    }
  }

  /// a call of `fs` producing its (instantiated) return type; `want`: required result type
  fn call_of(&mut self, fs: &FunSig, want: Option<&Ty>, cx: &mut Ctx, depth: u32, from_main: bool) -> Option<Expr> {
    // instantiate type parameters
    let mut map: Vec<(String, Ty)> = vec![];
    for tp in &fs.tparams {
      let inst = if tp.bound.is_some() {
        let c = self.classes.iter().find(|c| c.comparable).cloned()?;
        c.ty(vec![])
      } else if let Some(w) = want
        && fs.ret == Ty::TParam(tp.name.clone())
      {
        w.clone()
      } else {
        self.prim()
      };
      map.push((tp.name.clone(), inst));
    }
    let mut recv = None;
    if fs.is_method {
      let cargs: Vec<Ty> = fs.class_tparams.iter().map(|_| self.prim()).collect();
      for (p, a) in fs.class_tparams.iter().zip(cargs.iter()) {
        map.push((p.clone(), a.clone()));
      }
      let rty = Ty::Class(fs.module.clone(), fs.class.clone(), cargs);
      recv = Some(rty);
    }
    let ret = fs.ret.subst(&map);
    if let Some(w) = want
      && &ret != w
    {
      return None;
    }
    if contains_tparam(&ret) || fs.params.iter().any(|p| contains_tparam(&p.subst(&map))) {
      return None;
    }
    let mut args = vec![];
    for (i, p) in fs.params.iter().enumerate() {
      let p = p.subst(&map);
      if fs.fuel == Some(i) {
        let fuel = if from_main { [0, 1, 2, 3, 5, 9, 17][self.t.choose(7)] } else { self.t.choose(4) as i32 };
        args.push(if self.t.bool(1, 3) { Expr::new(Ty::Int, EK::OpaqueInt(fuel)) } else { Expr::new(Ty::Int, EK::Int(fuel)) });
      } else {
        args.push(if depth > 0 { self.expr(&p, cx, depth - 1) } else { self.leaf(&p, cx) });
      }
    }
    let targs: Vec<Ty> = fs.tparams.iter().map(|t| map.iter().find(|(k, _)| k == &t.name).unwrap().1.clone()).collect();
    self.feat("call");
    if let Some(rty) = recv {
      // receiver must be effect-free (spec says arguments first, the implementation evaluates the receiver first)
      let vars = self.vars_of(&rty, cx);
      if !vars.is_empty() {
        let r = Expr::new(rty, EK::Var(vars[self.t.choose(vars.len())].clone()));
        // the same call through a method reference taken as a value: `{ let f: (P) -> R = r.m; f(args) }`
        if fs.tparams.is_empty() && fs.class_tparams.is_empty() && fs.fuel.is_none() && self.t.bool(1, 5) {
          self.feat("method-reference");
          let fty = Ty::Fn(fs.params.clone(), Box::new(ret.clone()));
          let fv = self.fresh("g");
          let mref = Expr::new(fty.clone(), EK::MethodRef { recv: Box::new(r), method: fs.name.clone() });
          let call = Expr::new(ret.clone(), EK::CallValue { callee: Box::new(Expr::new(fty.clone(), EK::Var(fv.clone()))), args });
          return Some(Expr::new(ret, EK::Block { stmts: vec![Stmt::Let { pat: Pat::Var(fv, fty.clone()), annot: Some(fty), init: mref }], last: Some(Box::new(call)) }));
        }
        return Some(Expr::new(ret, EK::MethodCall { recv: Box::new(r), method: fs.name.clone(), targs, args }));
      }
      let v = self.fresh("r");
      let init = if depth > 0 { self.expr(&rty, cx, depth - 1) } else { self.leaf(&rty, cx) };
      let call = Expr::new(ret.clone(), EK::MethodCall { recv: Box::new(Expr::new(rty.clone(), EK::Var(v.clone()))), method: fs.name.clone(), targs, args });
      return Some(Expr::new(ret, EK::Block { stmts: vec![Stmt::Let { pat: Pat::Var(v, rty.clone()), annot: Some(rty), init }], last: Some(Box::new(call)) }));
    }
    Some(Expr::new(ret, EK::StaticCall { module: fs.module.clone(), class: fs.class.clone(), member: fs.name.clone(), targs, args }))
  }

  fn expr(&mut self, ty: &Ty, cx: &mut Ctx, depth: u32) -> Expr {
    self.budget -= 1;
    if depth == 0 || self.budget <= 0 {
      return self.leaf(ty, cx);
    }
    let d = depth - 1;
    // productions available for every type
    let hof_w = if self.hof_module.is_some() && !contains_tparam(ty) && !matches!(ty, Ty::Fn(..) | Ty::Unit) { 2 } else { 0 };
    let generic = if cx.no_effects { self.t.weighted(&[14, 3, 3, 0, 0, 2, 0, 0]) } else { self.t.weighted(&[14, 3, 3, 3, 2, 2, 2, hof_w]) };
    match generic {
      1 => {
        let cond = self.expr(&Ty::Bool, cx, d);
        let then = self.expr(ty, cx, d);
        let els = self.expr(ty, cx, d);
        return Expr::new(ty.clone(), EK::If { cond: Box::new(cond), then: Box::new(then), els: Box::new(els) });
      }
      2 => {
        if let Some(e) = self.match_expr(ty, cx, d) {
          return e;
        }
      }
      3 => return self.block(ty, cx, d),
      4 => {
        // call something that returns this type
        let cands: Vec<FunSig> = self.funs.iter().filter(|f| f.ret == *ty || (matches!(&f.ret, Ty::TParam(n) if f.tparams.iter().any(|t| &t.name == n && t.bound.is_none())))).cloned().collect();
        if !cands.is_empty() {
          let fs = cands[self.t.choose(cands.len())].clone();
          let saved = cx.rec.take();
          let r = self.call_of(&fs, Some(ty), cx, d, false);
          cx.rec = saved;
          if let Some(e) = r {
            return e;
          }
        }
      }
      5 => {
        if let Some(e) = self.if_let(ty, cx, d) {
          return e;
        }
      }
      7 => {
        // generic higher-order call: type arguments are solved from the non-lambda argument(s), the lambda
        // parameters are un-annotated and typed from the hint (spec 5.7)
        let hm = self.hof_module.clone().unwrap();
        let was = cx.in_lambda;
        let saved = cx.rec.take();
        let e = if matches!(ty, Ty::Int | Ty::Bool | Ty::Str) && self.t.bool(1, 3) {
          // the lambda's body is a generic constructor call: without its explicit type arguments it
          // can only be typed from the expected (hinted) return type
          let om = vec!["std".to_string(), "option".to_string()];
          let oty = Ty::Class(om.clone(), "Option".into(), vec![ty.clone()]);
          let v = self.fresh("h");
          cx.env.push((v.clone(), oty.clone()));
          cx.in_lambda = true;
          let hidden_this = self.hide_this(cx);
          let bd = self.t.choose(2) as u32;
          let body = self.construct(&om, "Option", &[ty.clone()], cx, bd);
          cx.in_lambda = was;
          if hidden_this.is_some() {
            cx.this = hidden_this;
          }
          cx.env.pop();
          let x = self.construct(&om, "Option", &[ty.clone()], cx, 1);
          let lam = Expr::new(Ty::Fn(vec![oty.clone()], Box::new(oty.clone())), EK::Lambda { params: vec![(v, oty.clone())], annotated: false, body: Box::new(body) });
          let call = Expr::new(oty.clone(), EK::StaticCall { module: hm, class: "Hof".into(), member: "applyTwice".into(), targs: vec![], args: vec![lam, x] });
          let w = self.fresh("o");
          let els = self.leaf(ty, cx);
          self.feat("hinted-lambda-body-needs-context");
          Expr::new(ty.clone(), EK::IfLet { pat: Pat::Variant("Some".into(), vec![Pat::Var(w.clone(), ty.clone())]), scrut: Box::new(call), then: Box::new(Expr::new(ty.clone(), EK::Var(w))), els: Box::new(els) })
        } else if self.t.bool(1, 2) {
          let v = self.fresh("h");
          cx.env.push((v.clone(), ty.clone()));
          cx.in_lambda = true;
          let hidden_this = self.hide_this(cx);
          let body = self.expr(ty, cx, d);
          cx.in_lambda = was;
          if hidden_this.is_some() {
            cx.this = hidden_this;
          }
          cx.env.pop();
          let x = self.expr(ty, cx, d);
          let lam = Expr::new(Ty::Fn(vec![ty.clone()], Box::new(ty.clone())), EK::Lambda { params: vec![(v, ty.clone())], annotated: false, body: Box::new(body) });
          Expr::new(ty.clone(), EK::StaticCall { module: hm, class: "Hof".into(), member: "applyTwice".into(), targs: vec![], args: vec![lam, x] })
        } else {
          let bt = self.prim();
          let (a, b) = (self.fresh("h"), self.fresh("h"));
          cx.env.push((a.clone(), ty.clone()));
          cx.env.push((b.clone(), bt.clone()));
          cx.in_lambda = true;
          let hidden_this = self.hide_this(cx);
          let body = self.expr(ty, cx, d);
          cx.in_lambda = was;
          if hidden_this.is_some() {
            cx.this = hidden_this;
          }
          cx.env.pop();
          cx.env.pop();
          let init = self.expr(ty, cx, d);
          let bv = self.expr(&bt, cx, d);
          let lam = Expr::new(Ty::Fn(vec![ty.clone(), bt.clone()], Box::new(ty.clone())), EK::Lambda { params: vec![(a, ty.clone()), (b, bt)], annotated: false, body: Box::new(body) });
          Expr::new(ty.clone(), EK::StaticCall { module: hm, class: "Hof".into(), member: "foldPair".into(), targs: vec![], args: vec![lam, init, bv] })
        };
        cx.rec = saved;
        self.feat("hinted-lambda-call");
        return e;
      }
      6 => {
        // immediately applied lambda capturing the environment
        self.feat("closure-capturing");
        let pty = self.prim();
        let pname = self.fresh("a");
        cx.env.push((pname.clone(), pty.clone()));
        let was = cx.in_lambda;
        cx.in_lambda = true;
        let hidden_this = self.hide_this(cx);
        let saved = cx.rec.take();
        let body = self.expr(ty, cx, d);
        cx.rec = saved;
        cx.in_lambda = was;
        if hidden_this.is_some() {
          cx.this = hidden_this;
        }
        cx.env.pop();
        let arg = self.expr(&pty, cx, d);
        let lam = Expr::new(Ty::Fn(vec![pty.clone()], Box::new(ty.clone())), EK::Lambda { params: vec![(pname, pty)], annotated: true, body: Box::new(body) });
        let fv = self.fresh("f");
        let fty = lam.ty.clone();
        let call = Expr::new(ty.clone(), EK::CallValue { callee: Box::new(Expr::new(fty.clone(), EK::Var(fv.clone()))), args: vec![arg] });
        return Expr::new(ty.clone(), EK::Block { stmts: vec![Stmt::Let { pat: Pat::Var(fv, fty.clone()), annot: Some(fty), init: lam }], last: Some(Box::new(call)) });
      }
      _ => {}
    }
    // type-specific productions
    match ty {
      Ty::Int => match self.t.weighted(&[4, 10, 3, 3, 2, 2, 4, if cx.no_effects { 0 } else { 3 }]) {
        0 => self.leaf(ty, cx),
        7 => self.vec_workout(cx),
        6 => self.cmp_call(cx).unwrap_or_else(|| self.leaf(ty, cx)),
        1 => {
          let op = ["+", "-", "*", "/", "%"][self.t.weighted(&[5, 4, 3, 2, 2])];
          // recorded finding (C04): the TypeScript backend floors the quotient, WebAssembly truncates it
          if op == "/" && !self.cfg.neg_division {
            let a = [0, 1, 7, 100, 1000, 65536, 2147483647][self.t.choose(7)];
            let b = [1, 2, 3, 7, 10][self.t.choose(5)];
            let mk = |g: &mut Self, v: i32| if g.t.bool(1, 2) { Expr::new(Ty::Int, EK::OpaqueInt(v)) } else { Expr::new(Ty::Int, EK::Int(v)) };
            let (ea, eb) = (mk(self, a), mk(self, b));
            return Expr::new(Ty::Int, EK::Binary("/", Box::new(ea), Box::new(eb)));
          }
          let a = self.expr(&Ty::Int, cx, d);
          let b = if op == "/" || op == "%" {
            // recorded finding: a division whose divisor may be zero is hoisted out of its guard and traps
            // (with the same-operand finding open, inlining / value numbering can make any two run-time
            // operands "the same variable", so divisors are literals there)
            if self.t.bool(3, 4) || !self.cfg.possibly_zero_divisor || !self.cfg.same_operand_division {
              let v = [1, 2, 3, 7, -1, -2, -3, 10][self.t.choose(8)];
              if self.t.bool(1, 2) { Expr::new(Ty::Int, EK::OpaqueInt(v)) } else { Expr::new(Ty::Int, EK::Int(v)) }
            } else {
              self.expr(&Ty::Int, cx, d)
            }
          } else if op == "*" {
            Expr::new(Ty::Int, EK::Int([0, 1, 2, 3, -1, 5][self.t.choose(6)]))
          } else {
            self.expr(&Ty::Int, cx, d)
          };
          // same operand on both sides (a variable, a field read, ...): compare the rendered text
          let b = if (op == "/" || op == "%") && !self.cfg.same_operand_division && format!("{:?}", a.kind) == format!("{:?}", b.kind) { Expr::new(Ty::Int, EK::Int(3)) } else { b };
          self.feat("arith");
          Expr::new(Ty::Int, EK::Binary(op, Box::new(a), Box::new(b)))
        }
        2 => {
          let a = self.expr(&Ty::Int, cx, d);
          Expr::new(Ty::Int, EK::Unary("-", Box::new(a)))
        }
        3 => self.field_of_type(ty, cx).unwrap_or_else(|| self.leaf(ty, cx)),
        4 => {
          // string round trip
          let a = self.expr(&Ty::Int, cx, d);
          self.feat("str-int-roundtrip");
          Expr::new(Ty::Int, EK::MethodCall { recv: Box::new(from_int(a)), method: "toInt".into(), targs: vec![], args: vec![] })
        }
        _ => self.vec_read(cx, d),
      },
      Ty::Bool => match self.t.weighted(&[3, 8, 4, 2, 2]) {
        0 => self.leaf(ty, cx),
        4 => {
          // equality of strings (by content) and of booleans; the right operand is sometimes built to be equal
          let operand = if self.t.bool(3, 4) { Ty::Str } else { Ty::Bool };
          self.feat(if operand == Ty::Str { "str-equality" } else { "bool-equality" });
          let op = ["==", "!="][self.t.choose(2)];
          // boolean operands are leaves or order comparisons: the printer re-associates `a == (b == c)`
          // (recorded C08 finding), which would change the typing of the pretty-printed document
          let mut operand_expr = |g: &mut Self, cx: &mut Ctx| -> Expr {
            if operand == Ty::Str {
              g.expr(&Ty::Str, cx, d.min(2))
            } else if g.t.bool(1, 2) {
              g.leaf(&Ty::Bool, cx)
            } else {
              let op = ["<", "<=", ">", ">="][g.t.choose(4)];
              let x = g.expr(&Ty::Int, cx, d.min(1));
              let y = g.expr(&Ty::Int, cx, d.min(1));
              Expr::new(Ty::Bool, EK::Binary(op, Box::new(x), Box::new(y)))
            }
          };
          let a = operand_expr(self, cx);
          // a copy is only taken of expressions without binders (names stay unique per member)
          let dbg = format!("{:?}", a.kind);
          let copyable = !["Lambda", "Let", "Match", "IfLet", "Block"].iter().any(|k| dbg.contains(k));
          let b = if copyable && self.t.bool(1, 3) {
            if operand == Ty::Str && self.t.bool(1, 2) {
              // equal content, different construction: ("" :: a)
              Expr::new(Ty::Str, EK::Binary("::", Box::new(Expr::new(Ty::Str, EK::Str(String::new()))), Box::new(a.clone())))
            } else {
              a.clone()
            }
          } else {
            operand_expr(self, cx)
          };
          Expr::new(Ty::Bool, EK::Binary(op, Box::new(a), Box::new(b)))
        }
        1 => {
          let op = ["<", "<=", ">", ">=", "==", "!="][self.t.choose(6)];
          let a = self.expr(&Ty::Int, cx, d);
          let b = self.expr(&Ty::Int, cx, d);
          Expr::new(Ty::Bool, EK::Binary(op, Box::new(a), Box::new(b)))
        }
        2 => {
          let op = ["&&", "||"][self.t.choose(2)];
          let a = self.expr(&Ty::Bool, cx, d);
          let b = self.expr(&Ty::Bool, cx, d);
          self.feat("short-circuit");
          Expr::new(Ty::Bool, EK::Binary(op, Box::new(a), Box::new(b)))
        }
        _ => {
          let a = self.expr(&Ty::Bool, cx, d);
          Expr::new(Ty::Bool, EK::Unary("!", Box::new(a)))
        }
      },
      Ty::Str => match self.t.weighted(&[3, 6, 5, 2]) {
        0 => self.leaf(ty, cx),
        1 => {
          let a = self.expr(&Ty::Str, cx, d);
          let b = self.expr(&Ty::Str, cx, d);
          Expr::new(Ty::Str, EK::Binary("::", Box::new(a), Box::new(b)))
        }
        2 => {
          let a = self.expr(&Ty::Int, cx, d);
          from_int(a)
        }
        _ => self.field_of_type(ty, cx).unwrap_or_else(|| self.leaf(ty, cx)),
      },
      Ty::Unit => {
        if cx.no_effects {
          return self.leaf(ty, cx);
        }
        if self.t.bool(2, 3) {
          let s = self.expr(&Ty::Str, cx, d);
          println(s)
        } else {
          self.block(ty, cx, d)
        }
      }
      Ty::Class(m, n, args) => {
        if self.t.bool(1, 4)
          && let Some(e) = self.field_of_type(ty, cx)
        {
          return e;
        }
        let (m, n, args) = (m.clone(), n.clone(), args.clone());
        self.construct(&m, &n, &args, cx, depth)
      }
      Ty::Tuple(ts) => {
        self.feat("tuple");
        let ts = ts.clone();
        Expr::new(ty.clone(), EK::Tuple(ts.iter().map(|t| self.expr(t, cx, d)).collect()))
      }
      Ty::Fn(ps, r) => {
        // method / function reference when a signature matches, else lambda
        let cands: Vec<FunSig> = self.funs.iter().filter(|f| !f.is_method && f.tparams.is_empty() && f.fuel.is_none() && &f.params == ps && f.ret == **r).cloned().collect();
        if !cands.is_empty() && self.t.bool(1, 2) {
          let f = cands[self.t.choose(cands.len())].clone();
          self.feat("function-reference");
          return Expr::new(ty.clone(), EK::StaticRef { module: f.module, class: f.class, member: f.name });
        }
        // method reference `x.m` / `this.m` taken as a value
        let mcands: Vec<FunSig> = self.funs.iter().filter(|f| f.is_method && f.tparams.is_empty() && f.class_tparams.is_empty() && f.fuel.is_none() && &f.params == ps && f.ret == **r).cloned().collect();
        if !mcands.is_empty() && self.t.bool(1, 2) {
          let f = mcands[self.t.choose(mcands.len())].clone();
          let rty = Ty::Class(f.module.clone(), f.class.clone(), vec![]);
          let vars = self.vars_of(&rty, cx);
          let recv = if !vars.is_empty() {
            Some(Expr::new(rty.clone(), EK::Var(vars[self.t.choose(vars.len())].clone())))
          } else if cx.this.as_ref() == Some(&rty) {
            Some(Expr::new(rty.clone(), EK::This))
          } else {
            None
          };
          if let Some(recv) = recv {
            self.feat("method-reference");
            return Expr::new(ty.clone(), EK::MethodRef { recv: Box::new(recv), method: f.name });
          }
        }
        self.feat("lambda");
        let params: Vec<(String, Ty)> = ps.iter().map(|p| (self.fresh("a"), p.clone())).collect();
        let n = params.len();
        cx.env.extend(params.iter().cloned());
        let was = cx.in_lambda;
        cx.in_lambda = true;
        let hidden_this = self.hide_this(cx);
        let saved = cx.rec.take();
        let body = self.expr(r, cx, d);
        cx.rec = saved;
        cx.in_lambda = was;
        if hidden_this.is_some() {
          cx.this = hidden_this;
        }
        for _ in 0..n {
          cx.env.pop();
        }
        if !cx.env.is_empty() {
          self.feat("closure-capturing");
        }
        Expr::new(ty.clone(), EK::Lambda { params, annotated: true, body: Box::new(body) })
      }
      Ty::Vec(t) => {
        // build through a block with pushes
        self.feat("vec");
        let t = (**t).clone();
        let v = self.fresh("v");
        let mut stmts = vec![Stmt::Let { pat: Pat::Var(v.clone(), ty.clone()), annot: Some(ty.clone()), init: Expr::new(ty.clone(), EK::StaticCall { module: vec![], class: "Vec".into(), member: "empty".into(), targs: vec![t.clone()], args: vec![] }) }];
        let k = self.t.choose(4);
        for _ in 0..k {
          let x = if t == Ty::Int && !self.cfg.wide_vec_ints { Expr::new(Ty::Int, EK::Int(self.t.choose(1000) as i32 - 500)) } else { self.expr(&t, cx, d) };
          stmts.push(Stmt::Expr(Expr::new(Ty::Unit, EK::MethodCall { recv: Box::new(Expr::new(ty.clone(), EK::Var(v.clone()))), method: "push".into(), targs: vec![], args: vec![x] })));
        }
        Expr::new(ty.clone(), EK::Block { stmts, last: Some(Box::new(Expr::new(ty.clone(), EK::Var(v)))) })
      }
      Ty::TParam(_) => self.leaf(ty, cx),
    }
  }

  /// `a.cmp(b)` on two values whose type is bounded by / implements Cmp
  fn cmp_call(&mut self, cx: &mut Ctx) -> Option<Expr> {
    if !self.has_cmp || cx.in_cmp {
      return None;
    }
    let mut tys: Vec<Ty> = vec![];
    for (_, t) in &cx.env {
      let ok = match t {
        Ty::TParam(n) => cx.bounded.contains(n),
        Ty::Class(m, n, a) => a.is_empty() && self.classes.iter().any(|c| &c.module == m && &c.name == n && c.comparable),
        _ => false,
      };
      if ok && !tys.contains(t) {
        tys.push(t.clone());
      }
    }
    if tys.is_empty() {
      return None;
    }
    let t = tys[self.t.choose(tys.len())].clone();
    let vars = self.vars_of(&t, cx);
    let a = vars[self.t.choose(vars.len())].clone();
    let b = if matches!(t, Ty::TParam(_)) || self.t.bool(1, 2) { Expr::new(t.clone(), EK::Var(vars[self.t.choose(vars.len())].clone())) } else { self.leaf(&t, cx) };
    self.feat("bounded-dispatch:cmp");
    Some(Expr::new(Ty::Int, EK::MethodCall { recv: Box::new(Expr::new(t, EK::Var(a))), method: "cmp".into(), targs: vec![], args: vec![b] }))
  }

  /// a block that fills a fresh Vec (to and beyond its capacity), then pops / sets / reads it
  fn vec_workout(&mut self, cx: &mut Ctx) -> Expr {
    self.feat("vec-workout");
    let vty = Ty::Vec(Box::new(Ty::Int));
    let v = self.fresh("w");
    let var = |n: &str| Expr::new(vty.clone(), EK::Var(n.to_string()));
    let call = |recv: Expr, m: &str, args: Vec<Expr>, ret: Ty| Expr::new(ret, EK::MethodCall { recv: Box::new(recv), method: m.into(), targs: vec![], args });
    let init = match self.t.choose(3) {
      0 => Expr::new(vty.clone(), EK::StaticCall { module: vec![], class: "Vec".into(), member: "empty".into(), targs: vec![Ty::Int], args: vec![] }),
      1 => Expr::new(vty.clone(), EK::StaticCall { module: vec![], class: "Vec".into(), member: "of".into(), targs: vec![Ty::Int], args: vec![Expr::new(Ty::Int, EK::Int(self.t.choose(100) as i32))] }),
      _ => Expr::new(vty.clone(), EK::StaticCall { module: vec![], class: "Vec".into(), member: "withCapacity".into(), targs: vec![Ty::Int], args: vec![Expr::new(Ty::Int, EK::Int([0, 1, 2, 3, 4, 8][self.t.choose(6)]))] }),
    };
    let mut stmts = vec![Stmt::Let { pat: Pat::Var(v.clone(), vty.clone()), annot: Some(vty.clone()), init }];
    let pushes = [0usize, 1, 2, 3, 4, 5, 7, 8, 9, 16, 17][self.t.choose(11)];
    for i in 0..pushes {
      let x = Expr::new(Ty::Int, EK::Int(i as i32 * 3 - 5));
      stmts.push(Stmt::Expr(call(var(&v), "push", vec![x], Ty::Unit)));
    }
    let ops = 1 + self.t.choose(5);
    let mut acc = self.fresh("s");
    stmts.push(Stmt::Let { pat: Pat::Var(acc.clone(), Ty::Int), annot: Some(Ty::Int), init: Expr::new(Ty::Int, EK::Int(0)) });
    let mut len = pushes as i64 + if matches!(stmts[0], Stmt::Let { init: Expr { kind: EK::StaticCall { ref member, .. }, .. }, .. } if member == "of") { 1 } else { 0 };
    for _ in 0..ops {
      let e = match self.t.choose(5) {
        0 if len > 0 => {
          len -= 1;
          call(var(&v), "pop", vec![], Ty::Int)
        }
        1 if len > 0 => {
          let i = self.t.choose(len as usize) as i32;
          call(var(&v), "get", vec![Expr::new(Ty::Int, EK::Int(i))], Ty::Int)
        }
        2 if len > 0 => {
          let i = self.t.choose(len as usize) as i32;
          stmts.push(Stmt::Expr(call(var(&v), "set", vec![Expr::new(Ty::Int, EK::Int(i)), Expr::new(Ty::Int, EK::Int(77))], Ty::Unit)));
          call(var(&v), "get", vec![Expr::new(Ty::Int, EK::Int(i))], Ty::Int)
        }
        3 => {
          len += 1;
          stmts.push(Stmt::Expr(call(var(&v), "push", vec![Expr::new(Ty::Int, EK::Int(41))], Ty::Unit)));
          call(var(&v), "length", vec![], Ty::Int)
        }
        _ => call(var(&v), "length", vec![], Ty::Int),
      };
      let next = self.fresh("s");
      // acc' = acc * 3 + e  (kept small: at most 6 steps of small values)
      let sum = Expr::new(Ty::Int, EK::Binary("+", Box::new(Expr::new(Ty::Int, EK::Binary("*", Box::new(Expr::new(Ty::Int, EK::Var(acc.clone()))), Box::new(Expr::new(Ty::Int, EK::Int(3)))))), Box::new(e)));
      stmts.push(Stmt::Let { pat: Pat::Var(next.clone(), Ty::Int), annot: Some(Ty::Int), init: sum });
      acc = next;
    }
    let _ = cx;
    Expr::new(Ty::Int, EK::Block { stmts, last: Some(Box::new(Expr::new(Ty::Int, EK::Var(acc)))) })
  }

  fn vec_read(&mut self, cx: &mut Ctx, d: u32) -> Expr {
    let vty = Ty::Vec(Box::new(Ty::Int));
    let vars = self.vars_of(&vty, cx);
    self.feat("vec");
    let v = if !vars.is_empty() { Expr::new(vty.clone(), EK::Var(vars[self.t.choose(vars.len())].clone())) } else { return self.leaf(&Ty::Int, cx) };
    match self.t.choose(3) {
      0 => Expr::new(Ty::Int, EK::MethodCall { recv: Box::new(v), method: "length".into(), targs: vec![], args: vec![] }),
      1 => {
        // guarded get
        let i = self.expr(&Ty::Int, cx, d.min(1));
        let iv = self.fresh("i");
        let ivar = || Expr::new(Ty::Int, EK::Var(iv.clone()));
        let len = Expr::new(Ty::Int, EK::MethodCall { recv: Box::new(v.clone()), method: "length".into(), targs: vec![], args: vec![] });
        let cond = Expr::new(
          Ty::Bool,
          EK::Binary("&&", Box::new(Expr::new(Ty::Bool, EK::Binary(">=", Box::new(ivar()), Box::new(Expr::new(Ty::Int, EK::Int(0)))))), Box::new(Expr::new(Ty::Bool, EK::Binary("<", Box::new(ivar()), Box::new(len))))),
        );
        let get = Expr::new(Ty::Int, EK::MethodCall { recv: Box::new(v), method: "get".into(), targs: vec![], args: vec![ivar()] });
        let ite = Expr::new(Ty::Int, EK::If { cond: Box::new(cond), then: Box::new(get), els: Box::new(Expr::new(Ty::Int, EK::Int(-1))) });
        Expr::new(Ty::Int, EK::Block { stmts: vec![Stmt::Let { pat: Pat::Var(iv.clone(), Ty::Int), annot: Some(Ty::Int), init: i }], last: Some(Box::new(ite)) })
      }
      _ if cx.no_effects => Expr::new(Ty::Int, EK::MethodCall { recv: Box::new(v), method: "length".into(), targs: vec![], args: vec![] }),
      _ => {
        // unguarded get: may end the run with the documented bounds panic
        self.feat("vec-unguarded-get");
        let i = Expr::new(Ty::Int, EK::Int(self.t.choose(3) as i32));
        Expr::new(Ty::Int, EK::MethodCall { recv: Box::new(v), method: "get".into(), targs: vec![], args: vec![i] })
      }
    }
  }

  /// `x.f` for some struct-typed variable with a field of the wanted type
  fn field_of_type(&mut self, ty: &Ty, cx: &mut Ctx) -> Option<Expr> {
    let mut cands: Vec<Expr> = vec![];
    let mut sources: Vec<(Expr, Ty)> = cx.env.iter().map(|(n, t)| (Expr::new(t.clone(), EK::Var(n.clone())), t.clone())).collect();
    if let Some(t) = &cx.this {
      sources.push((Expr::new(t.clone(), EK::This), t.clone()));
    }
    for (e, t) in sources {
      match &t {
        Ty::Class(m, n, args) => {
          if let Some(c) = self.classes.iter().find(|c| &c.module == m && &c.name == n)
            && let TypeDef::Struct(fs) = &c.typedef
          {
            let map: Vec<(String, Ty)> = c.tparams.iter().cloned().zip(args.iter().cloned()).collect();
            for (f, ft, public) in fs {
              // private fields are only visible inside the class: `this.f`
              if (*public || matches!(e.kind, EK::This)) && &ft.subst(&map) == ty {
                cands.push(Expr::new(ty.clone(), EK::Field { obj: Box::new(e.clone()), field: f.clone() }));
              }
            }
          }
        }
        Ty::Tuple(ts) => {
          for (i, ft) in ts.iter().enumerate() {
            if ft == ty {
              cands.push(Expr::new(ty.clone(), EK::Field { obj: Box::new(e.clone()), field: format!("e{i}") }));
            }
          }
        }
        _ => {}
      }
    }
    if cands.is_empty() {
      return None;
    }
    self.feat("field-access");
    Some(cands[self.t.choose(cands.len())].clone())
  }

  fn block(&mut self, ty: &Ty, cx: &mut Ctx, d: u32) -> Expr {
    let n = 1 + self.t.choose(3);
    let mut stmts = vec![];
    let base = cx.env.len();
    for _ in 0..n {
      match self.t.weighted(&[6, 3, 3]) {
        0 => {
          let vt = self.pool_type(&cx.tparams.clone(), 0);
          let vt = if contains_tparam(&vt) && !cx.env.iter().any(|(_, t)| t == &vt) { Ty::Int } else { vt };
          let init = self.expr(&vt, cx, d);
          let v = self.fresh("x");
          // annotate always: the annotation-free form is explored by C13
          stmts.push(Stmt::Let { pat: Pat::Var(v.clone(), vt.clone()), annot: Some(vt.clone()), init });
          cx.env.push((v, vt));
        }
        1 => {
          let s = self.expr(&Ty::Str, cx, d.min(1));
          stmts.push(Stmt::Expr(println(s)));
        }
        _ => {
          // destructuring let
          if let Some((pat, init)) = self.destructuring(cx, d) {
            let mut bs = vec![];
            pat.binders(&mut bs);
            stmts.push(Stmt::Let { pat, annot: None, init });
            cx.env.extend(bs);
          }
        }
      }
    }
    let last = self.expr(ty, cx, d);
    cx.env.truncate(base);
    Expr::new(ty.clone(), EK::Block { stmts, last: Some(Box::new(last)) })
  }

  /// irrefutable pattern for a type, binding fresh names
  fn irrefutable(&mut self, ty: &Ty, depth: u32) -> Pat {
    match ty {
      Ty::Tuple(ts) if depth > 0 && self.t.bool(2, 3) => {
        self.feat("pattern:tuple");
        Pat::Tuple(ts.iter().map(|t| self.irrefutable(t, depth - 1)).collect())
      }
      Ty::Class(m, n, args) if depth > 0 => {
        if let Some(c) = self.classes.iter().find(|c| &c.module == m && &c.name == n).cloned()
          && let TypeDef::Struct(fs) = &c.typedef
          && fs.iter().all(|(_, _, p)| *p)
          && self.t.bool(1, 2)
        {
          let map: Vec<(String, Ty)> = c.tparams.iter().cloned().zip(args.iter().cloned()).collect();
          self.feat("pattern:struct");
          let mut out = vec![];
          for (f, ft, _) in fs {
            // the checker requires every field to be mentioned (spec 8.5 says omitted fields are allowed;
            // recorded as a spec/implementation discrepancy in DESIGN.md), so unused fields bind `_`
            let sub = if self.t.bool(1, 4) { Pat::Wild } else { self.irrefutable(&ft.subst(&map), depth - 1) };
            out.push((f.clone(), sub));
          }
          if out.is_empty() {
            let (f, ft, _) = &fs[0];
            out.push((f.clone(), Pat::Var(self.fresh("b"), ft.subst(&map))));
          }
          // fields may be written in any order (the lowering must go by the declared position)
          if out.len() >= 2 && self.t.bool(1, 2) {
            self.feat("pattern:struct-fields-out-of-declaration-order");
            let k = 1 + self.t.choose(out.len() - 1);
            out.rotate_left(k);
            if self.t.bool(1, 2) {
              out.reverse();
            }
          }
          return Pat::Struct(out);
        }
        if self.t.bool(1, 5) { Pat::Wild } else { Pat::Var(self.fresh("b"), ty.clone()) }
      }
      _ => {
        if self.t.bool(1, 5) {
          Pat::Wild
        } else {
          Pat::Var(self.fresh("b"), ty.clone())
        }
      }
    }
  }

  fn destructuring(&mut self, cx: &mut Ctx, d: u32) -> Option<(Pat, Expr)> {
    // pick a tuple / struct typed source: existing variable or fresh expression
    let mut tys: Vec<Ty> = cx.env.iter().map(|(_, t)| t.clone()).filter(|t| self.destructurable(t)).collect();
    if tys.is_empty() || self.t.bool(1, 3) {
      tys.push(Ty::Tuple(vec![self.prim(), self.prim()]));
    }
    let ty = tys[self.t.choose(tys.len())].clone();
    let init = self.expr(&ty, cx, d.min(1));
    let pat = self.irrefutable(&ty, 2);
    if pat.is_plain_var() || matches!(pat, Pat::Wild) {
      return None;
    }
    Some((pat, init))
  }

  fn destructurable(&self, t: &Ty) -> bool {
    match t {
      Ty::Tuple(_) => true,
      Ty::Class(m, n, _) => self.classes.iter().any(|c| &c.module == m && &c.name == n && matches!(&c.typedef, TypeDef::Struct(fs) if fs.iter().all(|(_, _, p)| *p))),
      _ => false,
    }
  }

  /// enum-typed scrutinee: a variable / this, or a freshly built value
  fn enum_scrutinee(&mut self, cx: &mut Ctx, d: u32) -> Option<(Expr, ClassSig, Vec<Ty>)> {
    let mut cands: Vec<(Expr, ClassSig, Vec<Ty>)> = vec![];
    let mut sources: Vec<(Expr, Ty)> = cx.env.iter().map(|(n, t)| (Expr::new(t.clone(), EK::Var(n.clone())), t.clone())).collect();
    if let Some(t) = &cx.this {
      sources.push((Expr::new(t.clone(), EK::This), t.clone()));
    }
    for (e, t) in sources {
      if let Ty::Class(m, n, args) = &t
        && let Some(c) = self.classes.iter().find(|c| &c.module == m && &c.name == n)
        && matches!(c.typedef, TypeDef::Enum(_))
      {
        cands.push((e, c.clone(), args.clone()));
      }
    }
    if !cands.is_empty() && self.t.bool(3, 4) {
      let i = self.t.choose(cands.len());
      return Some(cands.swap_remove(i));
    }
    let enums: Vec<ClassSig> = self.classes.iter().filter(|c| matches!(c.typedef, TypeDef::Enum(_))).cloned().collect();
    if enums.is_empty() {
      return None;
    }
    let c = enums[self.t.choose(enums.len())].clone();
    let args: Vec<Ty> = c.tparams.iter().map(|_| self.prim()).collect();
    let e = self.construct(&c.module.clone(), &c.name.clone(), &args, cx, d.min(2).max(1));
    Some((e, c, args))
  }

  fn match_expr(&mut self, ty: &Ty, cx: &mut Ctx, d: u32) -> Option<Expr> {
    let (scrut, c, args) = self.enum_scrutinee(cx, d)?;
    let TypeDef::Enum(vs) = &c.typedef else { return None };
    let map: Vec<(String, Ty)> = c.tparams.iter().cloned().zip(args.iter().cloned()).collect();
    self.feat("match");
    let mut arms: Vec<(Pat, Expr)> = vec![];
    let mut order: Vec<usize> = (0..vs.len()).collect();
    if self.t.bool(1, 3) {
      order.reverse();
    }
    // optionally merge all 0-ary variants into one or-pattern arm, or finish with a wildcard arm
    let wildcard_from = if vs.len() > 2 && self.t.bool(1, 4) { Some(1 + self.t.choose(vs.len() - 1)) } else { None };
    let zero_ary: Vec<usize> = order.iter().copied().filter(|i| vs[*i].1.is_empty()).collect();
    let merge_zero = zero_ary.len() >= 2 && self.t.bool(1, 2);
    let mut merged_done = false;
    // two variants with the same non-empty payload: one arm `A(x, y) | B(x, y)` binding the same names
    let mut same_payload: Option<(usize, usize)> = None;
    for a in 0..vs.len() {
      for b in a + 1..vs.len() {
        if !vs[a].1.is_empty() && vs[a].1 == vs[b].1 && same_payload.is_none() && wildcard_from.is_none() {
          same_payload = Some((a, b));
        }
      }
    }
    if same_payload.is_some() && !self.t.bool(2, 3) {
      same_payload = None;
    }
    if let Some((a, b)) = same_payload {
      self.feat("pattern:or-with-binders");
      let payload: Vec<Ty> = vs[a].1.iter().map(|t| t.subst(&map)).collect();
      let base = cx.env.len();
      let pats: Vec<Pat> = payload.iter().map(|t| Pat::Var(self.fresh("q"), t.clone())).collect();
      let (first, second) = if self.t.bool(1, 2) { (a, b) } else { (b, a) };
      let pat = Pat::Or(vec![Pat::Variant(vs[first].0.clone(), pats.clone()), Pat::Variant(vs[second].0.clone(), pats.clone())]);
      let mut bs = vec![];
      Pat::Variant(vs[first].0.clone(), pats).binders(&mut bs);
      cx.env.extend(bs);
      let body = self.expr(ty, cx, d);
      cx.env.truncate(base);
      arms.push((pat, body));
      order.retain(|i| *i != a && *i != b);
    }
    for (k, vi) in order.iter().enumerate() {
      if let Some(w) = wildcard_from
        && k >= w
      {
        self.feat("pattern:wildcard-arm");
        let body = self.expr(ty, cx, d);
        arms.push((Pat::Wild, body));
        break;
      }
      let (tag, payload) = &vs[*vi];
      if merge_zero && payload.is_empty() {
        if merged_done {
          continue;
        }
        merged_done = true;
        self.feat("pattern:or");
        let body = self.expr(ty, cx, d);
        arms.push((Pat::Or(zero_ary.iter().map(|i| Pat::Variant(vs[*i].0.clone(), vec![])).collect()), body));
        continue;
      }
      // nested split: first payload of enum type gets one arm per sub-variant
      let payload: Vec<Ty> = payload.iter().map(|t| t.subst(&map)).collect();
      let nested = payload.iter().position(|t| self.enum_of(t).is_some());
      if let Some(ni) = nested
        && self.t.bool(1, 3)
      {
        self.feat("pattern:nested-variant");
        let (sub_c, sub_args) = self.enum_of(&payload[ni]).unwrap();
        let TypeDef::Enum(sub_vs) = &sub_c.typedef else { unreachable!() };
        let sub_map: Vec<(String, Ty)> = sub_c.tparams.iter().cloned().zip(sub_args.iter().cloned()).collect();
        for (stag, spayload) in sub_vs {
          let base = cx.env.len();
          let mut pats = vec![];
          for (pi, pt) in payload.iter().enumerate() {
            if pi == ni {
              let subpats: Vec<Pat> = spayload.iter().map(|t| self.irrefutable(&t.subst(&sub_map), 1)).collect();
              pats.push(Pat::Variant(stag.clone(), subpats));
            } else {
              pats.push(self.irrefutable(pt, 1));
            }
          }
          let pat = Pat::Variant(tag.clone(), pats);
          let mut bs = vec![];
          pat.binders(&mut bs);
          cx.env.extend(bs);
          let body = self.expr(ty, cx, d);
          cx.env.truncate(base);
          arms.push((pat, body));
        }
        continue;
      }
      let base = cx.env.len();
      let pats: Vec<Pat> = payload.iter().map(|t| self.irrefutable(t, 2)).collect();
      let pat = Pat::Variant(tag.clone(), pats);
      let mut bs = vec![];
      pat.binders(&mut bs);
      cx.env.extend(bs);
      let body = self.expr(ty, cx, d);
      cx.env.truncate(base);
      arms.push((pat, body));
    }
    Some(Expr::new(ty.clone(), EK::Match { scrut: Box::new(scrut), arms }))
  }

  fn enum_of(&self, t: &Ty) -> Option<(ClassSig, Vec<Ty>)> {
    if let Ty::Class(m, n, args) = t
      && let Some(c) = self.classes.iter().find(|c| &c.module == m && &c.name == n)
      && matches!(c.typedef, TypeDef::Enum(_))
    {
      return Some((c.clone(), args.clone()));
    }
    None
  }

  fn if_let(&mut self, ty: &Ty, cx: &mut Ctx, d: u32) -> Option<Expr> {
    let (scrut, c, args) = self.enum_scrutinee(cx, d)?;
    let TypeDef::Enum(vs) = &c.typedef else { return None };
    if vs.len() < 2 {
      return None; // the pattern would be irrefutable (reported as useless)
    }
    let map: Vec<(String, Ty)> = c.tparams.iter().cloned().zip(args.iter().cloned()).collect();
    let (tag, payload) = vs[self.t.choose(vs.len())].clone();
    self.feat("if-let");
    let base = cx.env.len();
    let pats: Vec<Pat> = payload.iter().map(|t| self.irrefutable(&t.subst(&map), 1)).collect();
    let pat = Pat::Variant(tag, pats);
    let mut bs = vec![];
    pat.binders(&mut bs);
    cx.env.extend(bs);
    let then = self.expr(ty, cx, d);
    cx.env.truncate(base);
    let els = self.expr(ty, cx, d);
    Some(Expr::new(ty.clone(), EK::IfLet { pat, scrut: Box::new(scrut), then: Box::new(then), els: Box::new(els) }))
  }
}

impl Ctx {
  fn in_lambda_shadowed(&self) -> bool {
    false
  }
}

impl<'t> Gen<'t> {
  /// recorded finding: a lambda that captures `this` inside a method of a generic class
  fn hide_this(&mut self, cx: &mut Ctx) -> Option<Ty> {
    if cx.this.is_none() {
      return None;
    }
    if cx.class_generic {
      if self.cfg.lambda_this_in_generic_class {
        self.feat("lambda-in-generic-class-method");
      } else {
        return cx.this.take();
      }
    }
    if cx.class_is_enum {
      if self.cfg.lambda_this_in_enum_class {
        self.feat("lambda-in-enum-class-method");
      } else {
        return cx.this.take();
      }
    }
    None
  }
}

pub fn contains_tparam(t: &Ty) -> bool {
  match t {
    Ty::TParam(_) => true,
    Ty::Class(_, _, a) => a.iter().any(contains_tparam),
    Ty::Fn(p, r) => p.iter().any(contains_tparam) || contains_tparam(r),
    Ty::Vec(x) => contains_tparam(x),
    Ty::Tuple(ts) => ts.iter().any(contains_tparam),
    _ => false,
  }
}

pub fn gen_program(t: &mut Tape, cfg: GenCfg) -> (ProgramIr, Vec<&'static str>) {
  let mut g = Gen::new(t, cfg);
  let p = g.program();
  (p, g.features)
}
