//! G2 – loop-centric programs for the optimizer: tail-recursive functions (which the compiler turns
//! into while loops) with basic and derived induction variables, guards of every comparison kind in
//! both operand orders, strides of either sign, bounds near INT_MIN / INT_MAX, loop-invariant and
//! possibly trapping computations, effects inside the loop, nested loops, tuples allocated per
//! iteration. Trip counts are bounded by simulating the induction variable with wrapping arithmetic.

use crate::engine::Tape;

#[derive(Clone, Debug)]
pub struct LoopCfg {
  /// `Process.println` inside loop bodies (recorded finding: loop elimination drops effects)
  pub effects_in_loop: bool,
  /// results / accumulators that are linear in the induction variable (recorded finding)
  pub derived_iv: bool,
  /// division / remainder by a loop-dependent value that may be zero (recorded finding: hoisting)
  pub possibly_zero_divisor: bool,
  /// the guard expression re-used as the loop's result
  pub guard_as_result: bool,
  /// comparisons of `i + c1` with a constant (recorded finding: merged into `i < c2 - c1` although the sum may wrap)
  pub compare_after_add: bool,
  pub max_loops: usize,
}

impl Default for LoopCfg {
  fn default() -> Self {
    LoopCfg { effects_in_loop: true, derived_iv: true, possibly_zero_divisor: true, guard_as_result: true, compare_after_add: true, max_loops: 4 }
  }
}

const INTERESTING: &[i32] = &[0, 1, -1, 2, 3, 7, 10, 100, 1000, 65536, 1073741824, 2147483647, 2147483646, 2147483640, -2147483647, -2147483648, -2147483640, -1000, -7];

fn lit(v: i32) -> String {
  v.to_string()
}

/// an argument: literal (the optimizer sees it) or opaque (parsed from a string at run time)
fn arg(t: &mut Tape, v: i32) -> String {
  if t.bool(1, 2) { lit(v) } else { format!("\"{v}\".toInt()") }
}

fn guard_holds(op: &str, i: i32, b: i32) -> bool {
  match op {
    "<" => i < b,
    "<=" => i <= b,
    ">" => i > b,
    ">=" => i >= b,
    "!=" => i != b,
    _ => i == b,
  }
}

fn flip(op: &str) -> &'static str {
  match op {
    "<" => ">",
    "<=" => ">=",
    ">" => "<",
    ">=" => "<=",
    "!=" => "!=",
    _ => "==",
  }
}

/// the comparison that holds exactly when `op` does not
fn neg_op(op: &str) -> &'static str {
  match op {
    "<" => ">=",
    "<=" => ">",
    ">" => "<=",
    ">=" => "<",
    "!=" => "==",
    _ => "!=",
  }
}

struct LoopFn {
  text: String,
  call: String,
}

fn gen_loop(t: &mut Tape, cfg: &LoopCfg, k: usize, inner: Option<usize>) -> LoopFn {
  let effects = cfg.effects_in_loop && t.bool(1, 4);
  let limit: u32 = if effects { 30 } else { 1500 };
  // induction variable: start, stride, guard, bound with a bounded trip count
  let (mut start, mut stride, mut op, mut bound) = (0i32, 1i32, "<", 10i32);
  // loops that cross most of the 32-bit range in 1-4 huge steps without wrapping: start, bound and their
  // difference lie near INT_MIN / INT_MAX, where closed forms computed in i32 are most fragile
  let spanning = t.bool(1, 6);
  if spanning {
    let st: i64 = [1_000_000_000i64, 700_000_000, 1 << 30, 2_000_000_000, 1_500_000_000, 536_870_912, 2147483647][t.choose(7)];
    let up = t.bool(2, 3);
    let s0: i64 = if up { [0i64, -5, 1, -1_000_000_000, -2147483648, -2147483000][t.choose(6)] } else { [0i64, 5, -1, 1_000_000_000, 2147483647, 2147483000][t.choose(6)] };
    let room = if up { (2147483647i64 - s0) / st } else { (s0 + 2147483648i64) / st };
    let n = (room - t.choose(2) as i64).max(0);
    let last = if up { s0 + n * st } else { s0 - n * st };
    let k = t.choose(3) as i64;
    if up {
      (start, stride, op, bound) = (s0 as i32, st as i32, ["<", "<="][t.choose(2)], (last - k).max(-2147483648) as i32);
      if op == "<=" {
        // `i <= bound` must fail at i = last: bound < last
        bound = (last - 1 - k).max(-2147483648) as i32;
      }
    } else {
      (start, stride, op, bound) = (s0 as i32, (-st) as i32, [">", ">="][t.choose(2)], (last + k).min(2147483647) as i32);
      if op == ">=" {
        bound = (last + 1 + k).min(2147483647) as i32;
      }
    }
    // keep only parameters whose simulated run (wrapping, as the target computes) is short
    let (mut i, mut count) = (start, 0u32);
    while guard_holds(op, i, bound) && count <= 8 {
      i = i.wrapping_add(stride);
      count += 1;
    }
    if count > 8 {
      (start, stride, op, bound) = (0, 1_000_000_000, "<", 2_000_000_000);
    }
  }
  for _ in 0..if spanning { 0 } else { 10 } {
    let s0 = INTERESTING[t.choose(INTERESTING.len())].wrapping_add(t.int_in(-3, 3) as i32);
    let st: i32 = match t.weighted(&[5, 3, 2, 1]) {
      0 => [1, -1][t.choose(2)],
      1 => [2, 3, 7, -2, -3, -7][t.choose(6)],
      2 => [1000, -1000, 65536, -65536, 1 << 20][t.choose(5)],
      // strides of the order of the whole range: few iterations, bounds and differences near INT_MAX / INT_MIN
      _ => [1 << 30, -(1 << 30), 2147483647, -2147483647, 1_000_000_000, -1_000_000_000, 700_000_000, -700_000_000, 2_000_000_000, 1_500_000_000][t.choose(10)],
    };
    let o = ["<", "<=", ">", ">=", "!=", "=="][t.weighted(&[5, 4, 5, 4, 3, 1])];
    let n = if t.bool(1, 6) { 0 } else { t.int_in(0, 40) as i32 };
    // aim the bound n strides away, in the direction the stride moves, sometimes off by a little
    let b0 = s0.wrapping_add(st.wrapping_mul(n)).wrapping_add(if o == "!=" || o == "==" { 0 } else { t.int_in(-2, 2) as i32 });
    let mut i = s0;
    let mut count = 0u32;
    while guard_holds(o, i, b0) && count <= limit {
      i = i.wrapping_add(st);
      count += 1;
    }
    if count <= limit {
      (start, stride, op, bound) = (s0, st, o, b0);
      break;
    }
  }
  let small_range = [start, bound, stride].iter().all(|v| (*v as i64).abs() < (1 << 20));
  let second_iv = if t.bool(1, 3) { Some([1, 2, -1, 5, -3][t.choose(5)]) } else { None };
  let j0 = INTERESTING[t.choose(INTERESTING.len())];
  let acc0 = [0, 1, -1, 7, 2147483647, -2147483648][t.weighted(&[5, 3, 2, 2, 1, 1])];
  // accumulator update
  let kc = [2, 3, 5, -1, 0, 1, 1000, 65537][t.choose(8)];
  let cc = t.int_in(-10, 10) as i32;
  let tick = |t: &mut Tape, a: String, b: String| -> String {
    // an effect inside an argument of the recursive call
    format!("if {{\n        let _ = Process.println(\"tick\");\n        {}\n      }} {{ {a} }} else {{ {b} }}", ["true", "false", "i % 2 == 0", "p"][t.choose(4)])
  };
  let update = match t.weighted(&[4, if cfg.derived_iv { 4 } else { 0 }, 3, 2, 2, if cfg.possibly_zero_divisor { 3 } else { 0 }, 2, if inner.is_some() { 4 } else { 0 }, 2, 2, if cfg.derived_iv { 4 } else { 0 }, 2, if effects { 3 } else { 0 }, 4, if cfg.compare_after_add { 3 } else { 0 }, if small_range { 4 } else { 0 }, 4]) {
    0 => "acc + i".to_string(),
    1 => format!("acc + (i * {} + {})", lit(kc), lit(cc)),
    2 => "acc * 3 + i".to_string(),
    3 => format!("acc + i % {}", lit([2, 3, 7, -3][t.choose(4)])),
    4 => format!("acc + i / {}", lit([2, 3, -2, 1000][t.choose(4)])),
    5 => match t.choose(3) {
      0 => format!("acc + 100 {} (i - {})", ["/", "%"][t.choose(2)], lit(start.wrapping_add(stride.wrapping_mul(t.int_in(0, 6) as i32)))),
      // loop-invariant divisor that is zero (candidates for hoisting out of a loop that may not run at all)
      1 => format!("acc + 7 {} (b - {})", ["/", "%"][t.choose(2)], lit(bound)),
      _ => format!("0 {} (j - j)", ["/", "%"][t.choose(2)]),
    },
    6 => format!("acc + (b * 2 + {})", lit(cc)),
    7 => format!("acc + Main.loop{}({}, {}, true, {}, i)", inner.unwrap(), lit(0), lit(1), lit(0)),
    8 => "{ let q = (i, acc); q.e0 + q.e1 }".to_string(),
    9 => format!("if i % 2 == 0 {{ acc + {} }} else {{ acc - i }}", lit(cc)),
    // the accumulator is *replaced* by a value derived from the induction variable / invariants
    10 => match t.choose(4) {
      0 => format!("i * {}", lit(kc)),
      1 => format!("i * {} + {}", lit(kc), lit(cc)),
      2 => format!("b + {}", lit(cc)),
      _ => "j".to_string(),
    },
    11 => lit(cc),
    // the same two operands of a non-commutative operator in both orders (value numbering / CSE keys)
    13 => match t.choose(4) {
      0 => "acc + ((i - j) - (j - i) * 3)".to_string(),
      1 => "acc + (if i < j { 1 } else { 0 }) + (if j < i { 2 } else { 0 }) + (if i <= j { 4 } else { 0 }) + (if j <= i { 8 } else { 0 })".to_string(),
      2 => "(acc - i) + (i - acc)  * 2 + (b - i) - (i - b)".to_string(),
      _ => "acc + (i % 7 - j % 7) + (j % 7 - i % 7) * 5".to_string(),
    },
    14 => {
      let c1 = [1, -1, 2, 7, 1000, 2147483647, -2147483647][t.choose(7)];
      let c2 = INTERESTING[t.choose(INTERESTING.len())];
      format!("acc + (if i + {} {} {} {{ 1 }} else {{ 0 }})", lit(c1), ["<", "<=", ">", ">="][t.choose(4)], lit(c2))
    }
    // comparisons of `i + c1` / `i - c1` with a constant on either side, where no sum can wrap (the
    // induction variable stays below 2^21 in magnitude): the pivot lies on the variable's path so that
    // the comparison changes its value during the loop
    15 => {
      let c1 = t.int_in(-9, 9) as i32;
      let pivot = start.wrapping_add(stride.wrapping_mul(t.int_in(0, 6) as i32));
      let c2 = pivot.wrapping_add(c1).wrapping_add(t.int_in(-1, 1) as i32);
      let sum = if c1 < 0 && t.bool(1, 2) { format!("i - {}", lit(-c1)) } else { format!("i + {}", lit(c1)) };
      let cmp = ["<", "<=", ">", ">=", "==", "!="][t.weighted(&[3, 3, 3, 3, 1, 1])];
      let cond = match t.choose(3) {
        0 => format!("{sum} {cmp} {}", lit(c2)),
        1 => format!("{} {cmp} {sum}", lit(c2)),
        _ => format!("{{ let s = {sum}; {} {cmp} s }}", lit(c2)),
      };
      format!("acc + (if {cond} {{ 1 }} else {{ 0 }})")
    }
    // a second induction variable with a constant step and nothing else in the body (closed-form candidates)
    16 => format!("acc + {}", lit([1, 2, -1, 7, 100][t.choose(5)])),
    _ => tick(t, "acc + 1".to_string(), if cfg.derived_iv { format!("i * {}", lit(kc)) } else { "acc + i".to_string() }),
  };
  // range-spanning loops often keep the body empty apart from a constant-step accumulator
  let update = if spanning && t.bool(1, 2) { format!("acc + {}", lit([1, 2, -1, 7][t.choose(4)])) } else { update };
  let result = match t.weighted(&[5, if cfg.derived_iv { 3 } else { 0 }, 2, if cfg.derived_iv { 2 } else { 0 }, if cfg.guard_as_result { 2 } else { 0 }, 2]) {
    0 => "acc".to_string(),
    1 => "i".to_string(),
    2 => "acc + j".to_string(),
    3 => format!("i * {} + acc", lit(kc)),
    4 => format!("if {} {{ 1 }} else {{ 0 }}", if t.bool(1, 2) { format!("i {op} b") } else { format!("b {} i", flip(op)) }),
    _ => "if p { acc } else { 0 - acc }".to_string(),
  };
  let flipped = t.bool(1, 3);
  // the bound is the parameter b or the same value written as a literal in the guard
  let bname = if t.bool(1, 3) { lit(bound) } else { "b".to_string() };
  let guard = if flipped { format!("{bname} {} i", flip(op)) } else { format!("i {op} {bname}") };
  let next_i = if stride < 0 && stride != i32::MIN && t.bool(1, 2) { format!("i - {}", lit(-stride)) } else { format!("i + {}", lit(stride)) };
  let next_j = match second_iv {
    Some(s) => format!("j + {}", lit(s)),
    None => "j".to_string(),
  };
  // a loop variable that never reaches the result but whose update has an effect
  let next_j = if effects && t.bool(1, 3) { tick(t, next_j.clone(), if cfg.derived_iv { format!("i * {}", lit(kc)) } else { "j".to_string() }) } else { next_j };
  let next_p = ["p", "!p", "true", "i % 2 == 0"][t.weighted(&[4, 4, 1, 1])];
  let call = format!("Main.loop{k}({next_i}, {next_j}, {next_p}, {update}, b)");
  let body = if effects && t.bool(2, 3) {
    let shown = ["i", "acc", "i + j", "b - i"][t.choose(4)];
    format!("{{\n      let _ = Process.println(Str.fromInt({shown}));\n      {call}\n    }}")
  } else {
    format!("{{ {call} }}")
  };
  // a second exit in an else-if chain
  let second_exit = if t.bool(1, 4) { Some(format!("j == {}", lit(j0.wrapping_add(second_iv.unwrap_or(0).wrapping_mul(t.int_in(0, 8) as i32))))) } else { None };
  let negate = |g: &str| -> String { format!("!({g})") };
  let text = match (t.bool(1, 2), &second_exit) {
    // recursion in the then-branch
    (true, None) => format!("  function loop{k}(i: int, j: int, p: bool, acc: int, b: int): int =\n    if {guard} {body} else {{ {result} }}\n\n"),
    (true, Some(x)) => format!("  function loop{k}(i: int, j: int, p: bool, acc: int, b: int): int =\n    if {x} {{ acc - 1 }} else if {guard} {body} else {{ {result} }}\n\n"),
    // base case first (exit condition written as the negated comparison)
    (false, None) => {
      let exit = if t.bool(1, 2) { negate(&guard) } else { format!("{} {} {}", if flipped { bname.as_str() } else { "i" }, neg_op(if flipped { flip(op) } else { op }), if flipped { "i" } else { bname.as_str() }) };
      format!("  function loop{k}(i: int, j: int, p: bool, acc: int, b: int): int =\n    if {exit} {{ {result} }} else {body}\n\n")
    }
    (false, Some(x)) => format!("  function loop{k}(i: int, j: int, p: bool, acc: int, b: int): int =\n    if {} {{ {result} }} else if {x} {{ acc - 1 }} else {body}\n\n", negate(&guard)),
  };
  let call = format!("Main.loop{k}({}, {}, {}, {}, {})", arg(t, start), arg(t, j0), ["true", "false", "1 <= 2"][t.choose(3)], arg(t, acc0), arg(t, bound));
  LoopFn { text, call }
}

/// a loop whose variables feed each other: every next value is another variable, a small expression
/// of them or of the counter (delay lines `f(n - 1, g(n), x, y)`, rotations `f(n - 1, b, c, a)`,
/// swaps); only one of them is returned, so the others are live only through the chain
fn gen_shuffle_loop(t: &mut Tape, cfg: &LoopCfg, k: usize) -> LoopFn {
  let vars = ["a", "b", "c", "d"];
  let nv = 2 + t.choose(3);
  let derived_iv = cfg.derived_iv;
  let pick = |t: &mut Tape| -> String {
    // (a next value that is linear in the counter is the recorded derived-induction-variable finding)
    match t.weighted(&[10, 2, if derived_iv { 2 } else { 0 }, 2, 1, 1]) {
      0 => vars[t.choose(nv)].to_string(),
      1 => "n * n".to_string(),
      2 => "n".to_string(),
      3 => format!("{} + {}", vars[t.choose(nv)], vars[t.choose(nv)]),
      4 => format!("{} + 1", vars[t.choose(nv)]),
      _ => lit(t.int_in(-3, 9) as i32),
    }
  };
  let nexts: Vec<String> = (0..nv).map(|_| pick(t)).collect();
  let ret = match t.weighted(&[6, 2]) {
    0 => vars[t.choose(nv)].to_string(),
    _ => format!("{} - {}", vars[t.choose(nv)], vars[t.choose(nv)]),
  };
  let params = (0..nv).map(|i| format!("{}: int", vars[i])).collect::<Vec<_>>().join(", ");
  let base_first = t.bool(1, 2);
  let call = format!("Main.shuffle{k}(n - 1, {})", nexts.join(", "));
  let text = if base_first {
    format!("  function shuffle{k}(n: int, {params}): int =\n    if n <= 0 {{ {ret} }} else {{ {call} }}\n\n")
  } else {
    format!("  function shuffle{k}(n: int, {params}): int =\n    if n > 0 {{ {call} }} else {{ {ret} }}\n\n")
  };
  let trips = [0, 1, 2, 3, 4, 5, 7, 12][t.choose(8)];
  let args = (0..nv).map(|i| arg(t, [9, 200, 4, 1][i] + 0)).collect::<Vec<_>>().join(", ");
  let call = format!("Main.shuffle{k}({}, {args})", arg(t, trips));
  LoopFn { text, call }
}

/// a whole program: loop functions and a main that prints each result
pub fn gen_loop_program(t: &mut Tape, cfg: &LoopCfg) -> String {
  let n = 1 + t.choose(cfg.max_loops);
  let mut fns = vec![];
  for k in 0..n {
    // an inner loop, when used, is an earlier function: called with b = the outer i, so its trip count is
    // bounded only if it counts from 0 up to b with stride 1 - provided as loop<k> specialised below
    let inner = if k > 0 && t.bool(1, 3) { Some(100 + k) } else { None };
    fns.push((gen_loop(t, cfg, k, inner), inner));
  }
  for k in 0..t.weighted(&[3, 2, 1]) {
    fns.push((gen_shuffle_loop(t, cfg, 50 + k), None));
  }
  let mut s = String::from("class Main {\n");
  for (f, inner) in &fns {
    if let Some(id) = inner {
      // bounded helper: counts i up to min(b, 20) so that nesting stays small whatever the outer i is
      s.push_str(&format!("  function loop{id}(i: int, j: int, p: bool, acc: int, b: int): int =\n    if i < b && i < 20 {{ Main.loop{id}(i + 1, j, p, acc + i * j, b) }} else {{ acc }}\n\n"));
    }
    s.push_str(&f.text);
  }
  s.push_str("  function main(): unit = {\n");
  for (f, _) in &fns {
    s.push_str(&format!("    let _ = Process.println(Str.fromInt({}));\n", f.call));
  }
  s.push_str("  }\n}\n");
  s
}
