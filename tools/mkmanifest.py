#!/usr/bin/env python3
"""Regenerates /verif/MANIFEST.json from the table below (keeps the file valid at all times)."""
import json, os, subprocess
HERE = os.path.dirname(os.path.dirname(os.path.abspath(__file__)))

# id -> (category, technique, level text, level note, design ref)
CLAIMED = {
 "C17": ("exploration",
         "model-based property testing (proptest over a choice tape): operation sequences vs. a slot-table reference model",
         "Generated operation sequences over the public Heap API are compared step by step with a reference model of the documented contract (injectivity, read-back, no reclamation of permanent / module-reference / marked strings, fresh handle after reclamation). Exploration, not proof: it samples histories up to a length bound.",
         "Trusts the harness's model of the documented mark/sweep contract; the model never touches a handle it considers reclaimed. Leaks are not violations.",
         "DESIGN.md §4 C17"),
}
CLAIMED.update({
 "C08": ("exploration",
         "round-trip property testing (proptest over a choice tape driving a grammar-based generator): parse, print, re-parse, compare canonical trees",
         "For generated syntactically valid modules (every production of the grammar, explicit parentheses anywhere, all literal forms) and every repository .sam file, the formatter output must re-parse without syntax error to the same canonical tree (names, literals, operators and grouping, patterns, annotations, modifiers, order; imports as a set) at several widths. Exploration over a large sample; failures are shrunk to a minimal module.",
         "Trusts the parser as reader of both texts (its faithfulness is checked by C14/C05) and the harness's canonical dump. One recorded finding (same-operator re-association, pinned by an existing test) is normalised away so the search continues.",
         "DESIGN.md §4 C08"),
 "C09": ("exploration",
         "property testing with a grammar-based generator placing comments in every trivia slot; oracles: print twice (idempotence) and comment inventory by an independent tokenizer",
         "Generated modules with line/block/doc comments before every token class; the formatter is applied once and twice. Output of the second application must equal the first; every comment of the input (read by the harness's own tokenizer) must appear in the output with the same kind and words, in the same relative order (multiset for the import section). Findings are keyed by the AST attachment site of the comment.",
         "Trusts the harness tokenizer (written from spec section 2). Comment text is compared word-wise. 26 recorded findings (comment drop / reorder sites, wrap artefact, non-idempotence in presence of comments) are tolerated by exact signature; idempotence on inputs with comments is attributed to one coarse finding, see DESIGN.md section 7.",
         "DESIGN.md §4 C09"),
 "C14": ("exploration",
         "property testing with adversarial-layout generator; validity predicate over every AST location plus ground-truth token positions from an independent tokenizer; the same predicate plus name-spelling over every location returned by language-server queries (references, definition, hover, folding ranges) on generated programs, also after a position-displacing update",
         "For generated modules with tabs, CR, CRLF, blank lines, multi-line comments, non-ASCII text and long lines, every location of the parsed tree must lie inside the document, have start<=end, be enclosed by its parent, list siblings ordered and disjoint, names must spell exactly the name, construct boundaries must coincide with the expected delimiter tokens; syntax-error and checker diagnostic locations (incl. reference locations) must lie inside the document. Part B: accepted multi-module programs and a sixth of the generated texts are loaded into a ServerState (half of them first with displaced text, then updated); find-references, go-to-definition and hover at up to 120 identifier tokens and the folding ranges must return locations inside the text the server holds for the named module, references must spell the queried name, definitions contain it, hover ranges contain the position, folding ranges start at a declaration keyword, and ranges of one answer nest or are disjoint.",
         "Trusts the harness tokenizer for ground-truth positions; columns are byte offsets. Edit ranges (quick fixes, completion edits) are judged by C16's applier; which occurrences a reference query must return is C15's subject.",
         "DESIGN.md §4 C14"),
})
CLAIMED.update({
 "C05": ("exploration",
         "fuzz-style property testing (random bytes, token soups, deep nesting, token/byte mutation and splicing of the repository corpus and of grammar-generated modules) through the whole front end with crash, no-progress and token-conservation oracles",
         "Every generated input (1-3 modules, with the standard library) is pushed through parse, type-check, diagnostic rendering (text and IDE), formatting at three widths, whole-program compilation with every module as entry, and ServerState::new/update. Panics are caught with file:line signatures, aborts/stack overflows are attributed by process isolation, parser loops are made deterministic by a guarded no-progress hook, exponential formatter cost by a guarded work counter; compile_sources must be Err iff diagnostics exist; with no syntax error every identifier/literal token must be in the tree and the formatted module must carry the same keyword/operator tokens.",
         "Sampling, not proof; stack overflow judged on an 8 MiB stack; wall-clock expiry is reported as inconclusive, never as a violation. One recorded finding (exponential formatting of nested if-else) is excluded by construction above depth 11.",
         "DESIGN.md §4 C05"),
})
CLAIMED.update({
 "C01": ("exploration",
         "differential property testing against a reference interpreter: generated well-typed programs (proptest over a choice tape driving a typed program generator), real compilation, execution of the emitted WebAssembly in node 22",
         "Well-typed multi-module programs are generated goal-directed (classes, enums of all layout-relevant shapes, interface with bounded generics, closures, tuples, patterns, fuel recursion, Vec/Str/Process builtins, opaque run-time ints) and run by the harness's reference interpreter (written from the spec, calibrated on tests/snapshot.txt) and by the real pipeline; printed lines and the way the run ends must agree. Spec-undefined runs (overflow, division by zero) are excluded and counted. The repository's own test program is a fixed case.",
         "Trusts the reference interpreter (harness's reading of spec.md), node 22/V8 as engine. Shapes of recorded findings are excluded from generation by feature flags (counted in known_findings.json) and each is re-observed by a probe on every run.",
         "DESIGN.md §4 C01"),
 "C03": ("exploration",
         "property testing with a typed program generator; validity predicates on every stage output: compile without panic, wasmparser validation, V8 instantiation, TypeScript syntax check, permitted run endings",
         "Every generated program is accepted by the checker by construction; compile_sources must not panic, the module must validate (wasmparser with GC features) and instantiate in V8, the TypeScript must strip and parse, and both runs may only end in return, Process.panic, a Vec bounds panic confirmed by the reference run, stack exhaustion or an arithmetic trap. The repository's test program is a fixed case.",
         "wasmparser 0.252 and V8 12.4 trusted as validators. Recorded findings are tolerated by exact signature (panic site / validator message class).",
         "DESIGN.md §4 C03"),
 "C04": ("exploration",
         "differential property testing of the two backends on generated well-typed programs (TypeScript stripped and run in a fresh V8 context vs. WebAssembly through the emitted loader)",
         "Same generator as C01 with value-level emphasis (plus, for this check only, printed comparisons of Vec<Str> values whose elements are built from one run-time string in different ways, and long position-dependent strings); printed lines and end class of the TypeScript and WebAssembly runs must agree; runs the reference interpreter marks as overflow / division by zero are excluded and counted; wall-clock expiry of an execution is inconclusive.",
         "Recorded backend differences (floor vs trunc division, loose equality on tags, 31-bit Vec ints, string escapes, non-ASCII, INT_MIN constant merging) are excluded by construction and re-observed by probes.",
         "DESIGN.md §4 C04"),
})
CLAIMED.update({
 "C06": ("fault_enumeration",
         "single-fault injection on a typed program IR (property testing over a choice tape): 26 guaranteed-ill-typed fault kinds at tape-chosen sites of generated well-typed programs",
         "Each case is a well-typed generated program plus one edit that is ill-typed by construction (the IR knows every expression's type; all generic calls carry explicit type arguments, or the type parameter is pinned by another argument). The unmutated program must have no diagnostics; the mutant must get at least one diagnostic located in the offending module and compile_sources must return Err. Fault kinds include a class claiming a second, unsatisfiable instantiation of a generic interface, a value of a same-named class declared in another module, a struct pattern with a refutable sub-pattern lacking a case, and an unbounded type parameter passed to a bounded one. Evidence tabulates fault kind x outcome.",
         "The guarantee of each fault kind is argued in generators/faults.rs; sites where the guarantee does not hold (inferred type arguments, literal merged into INT_MIN) are excluded or discarded and counted.",
         "DESIGN.md §4 C06"),
})
CLAIMED.update({
 "C12": ("exploration",
         "differential property testing across fresh processes: each generated program (accepted or carrying injected errors) is compiled in 8 fresh processes with different RAYON_NUM_THREADS; verdict, rendered diagnostics and behaviour of the emitted artefacts are compared",
         "Fresh processes give fresh hash seeds and thread pools; verdicts and diagnostics text must be byte-identical, and every distinct emitted WebAssembly / TypeScript artefact is executed and must behave identically. Byte identity of artefacts is only a metric (they usually differ). One case in 10 has 2-3 entry modules over mutually recursive enums (layout decisions that may depend on which entry is specialised first).",
         "Sampling of hash seeds and schedules, no control over them: low-probability interleaving faults can be missed (stated in DESIGN.md). A failure of this check is by nature not always reproducible; the first observation is reported.",
         "DESIGN.md §4 C12"),
 "C13": ("exploration",
         "metamorphic property testing: meaning-preserving rewrites applied on the typed IR of generated accepted and rejected programs; checker verdict and compiled behaviour compared before/after",
         "Eleven rewrites (alpha-renaming to fresh names and its reverse (scope-level naming so that sibling scopes reuse names), class and member permutation, annotating inferred lambda parameters, parenthesis / block wrapping, dropping let / lambda annotations and explicit type arguments, splitting a class into a new module) are applied by construction on the generator's IR; the verdict must not flip (for annotation-dropping rewrites a rejection of the less annotated form is only counted), and both forms' emitted WebAssembly must behave the same. One case in 12 comes from a dedicated host family around generic classes / functions whose type-parameter bounds mention other parameters declared later, earlier or both ways, comparing the inferred spelling with let annotations, explicit type arguments and lambda annotations.",
         "Rewrites are meaning-preserving by construction on the IR (unique names, imports derived). Pairs the compiler cannot compile/load are C03's.",
         "DESIGN.md §4 C13"),
})
CLAIMED.update({
 "C07": ("exploration",
         "model-based property testing: generated type declarations and pattern lists; oracle = brute-force enumeration of all values of the scrutinee type with an independent matcher",
         "For generated enum / struct / tuple / generic declarations (recursive and nested) and generated pattern lists rendered as match, destructuring let and if-let, every value of the scrutinee type up to the patterns' depth + 1 is enumerated (leaves abstract) and matched by the harness's own matcher. The checker must report non-exhaustiveness iff a value is unmatched, its counterexample must denote at least one value and only unmatched ones, and an if-let is flagged irrefutable iff its pattern matches every value. One case in 8 is spread over two modules (the judged module declares decoy enums with the same class names and receives the scrutinee by inference). Failures shrink to a minimal declaration + pattern list.",
         "Universe capped at 50 000 values per case (larger cases are discarded and counted). Leaves (int / Str / bool) have no literal patterns in this language and are one abstract value.",
         "DESIGN.md §4 C07"),
})
CLAIMED.update({
 "C18": ("exploration",
         "model-based property testing of operation histories: generated driver programs over std Map / Set / List, expected output from BTreeMap / BTreeSet / Vec; executed by the reference interpreter and as compiled WebAssembly",
         "Operation histories (up to 40 / 120 operations, operands chosen among all earlier results, dense / offset / wide key pools) are rendered as a samlang driver that prints every result; each printed line must equal the line computed from Rust's BTreeMap / BTreeSet / Vec, both under the reference interpreter (std sources interpreted by the spec semantics) and as compiled WebAssembly in node. Failures are keyed by the operation that printed the first wrong line.",
         "Only the operations the property names are generated (merge, map, iter, forAll, exists, equal, compare, subset, disjoint are not judged). Histories whose arithmetic overflows 32 bits are discarded (unspecified behaviour).",
         "DESIGN.md §4 C18"),
 "C10": ("exploration",
         "stateful differential property testing: generated edit histories applied to one ServerState, compared after every operation with a freshly started ServerState on the current contents",
         "Histories of update / create / rename-module / remove operations over a pool of six module names with generated contents (imports forming cycles, self-imports, missing modules, transitive signature dependencies, private classes, type errors, empty and unparsable files). Histories also contain signature-preserving edits (lines inserted in front of / inside a module, a re-laid-out body). After every operation the rendered diagnostics (range, short message, full rendering with code frames, related locations) of every module name ever mentioned and the set of modules must equal those of a fresh server. The whole history shrinks as one value.",
         "Batches name a module at most once (as the LSP front end sends them). Diagnostics are compared as sorted lists of rendered strings.",
         "DESIGN.md §4 C10"),
 "C11": ("exploration",
         "stateful robustness property testing / fuzzing of the services API: generated histories of edits and requests under catch_unwind",
         "Edit histories (module-pool workspaces, G1 generated programs with their std modules edited by single-fault mutants, grammar-generated modules with long identifiers, and long sessions of 30-150 edits that each intern hundreds of fresh long strings so that one incremental GC sweep spans several edits) interleaved with all nine request kinds at identifier positions and at positions outside the text, on live, renamed, removed and never-existing modules; every edit runs a GC slice. Any panic is a violation keyed by its source location; evidence reports per request kind how many requests were answered.",
         "A use of a reclaimed string is visible only when it panics (the heap checks dereferences of deallocated strings); C17 decides the heap contract itself.",
         "DESIGN.md §4 C11"),
})
CLAIMED.update({
 "C15": ("exploration",
         "property testing with generator-side ground truth: unique-name programs and their scope-level-renamed variants; go-to-definition / find-references / rename compared with the binder each occurrence resolves to (for or-pattern variables go-to-definition must be the first alternative's binder); rename additionally checked by round trip and by the reference interpreter",
         "Hosts are dedicated match members with nested or-patterns (variant alternatives binding the same names in different tuple components; struct payloads destructured in shorthand form) and G1 accepted programs whose local names are unique per member, so the binder of every occurrence is known; the queried document is that program or the same program with binders renamed after their scope level (sibling scopes reuse names). At tape-chosen occurrences definition must land on the right binding, references must be exactly that variable's occurrences, rename must change exactly them, keep the document error-free and behaviourally identical under the reference interpreter, and renaming back must restore the formatted original.",
         "Parameters of interface member declarations are not queried (no scope). For or-pattern variables any alternative's binder counts as the binding.",
         "DESIGN.md §4 C15"),
 "C16": ("exploration",
         "property testing of proposed text edits: generated workspaces and documents (imports in any order / layout with comments, also on the import's own line and continuing below it), every auto-import quick fix and completion additional-edit set applied to the text and re-checked",
         "For every unresolved-class diagnostic of a generated document the proposed edits are applied by the harness's own edit applier (range and overlap checks), the result is parsed, its imports / classes / comments compared with the original, and sent back to the server to confirm that the class resolves and no new diagnostic appears.",
         "The module and class named by a quick fix are read from its title. Positions use the parser's (0-based line, byte column) convention.",
         "DESIGN.md §4 C16"),
})
CLAIMED.update({
 "C02": ("exploration",
         "differential property testing across optimization plans: generated loop programs (G2) and general programs (G1) compiled without the optimizer, with all 32 configurations, with every single pass and with driver-shaped pass schedules (cfg-guarded hook); emitted WebAssembly executed and compared",
         "Every distinct module emitted for a plan is run in node and must print the same lines and end the same way (ok / panic message / trap class / stack exhaustion) as the module built without the optimizer. The loop generator covers guards of every comparison kind in both operand orders, strides of either sign and size, bounds near INT_MIN / INT_MAX, derived induction expressions, trapping and loop-invariant computations, effects in bodies and in dead loop variables, nested loops and per-iteration tuples, comparisons of `i + c` with a literal on either side, loops whose variables feed each other (delay lines, rotations, swaps) and loops that cross most of the 32-bit range in 1-4 huge steps, with literal and opaque arguments; trip counts are bounded by simulation. Signatures name the smallest configuration that differs.",
         "32-bit wrapping and traps are the target's semantics (the reference is the unoptimized build, not the source-level interpreter). Plans containing inlining are closed with one constant-propagation pass (inlining's typed-agnostic `x + 0` moves never reach the backend in any configuration). Plans that cannot be built are counted, not judged (C03's subject). Five recorded optimizer findings exclude derived-induction-variable, guard-as-result, same-operand division and compare-after-add shapes (and extreme literals in G1 hosts) from generation; their probes run on every invocation. Pass schedules are driver-shaped (per-round subsets of the driver's own pass order).",
         "DESIGN.md §4 C02"),
})
NOT_YET = {}

props = [json.loads(l) for l in open(os.path.join(HERE, "properties.jsonl"))]
checks = []
na = []
for p in props:
    pid = p["id"]
    if pid in CLAIMED:
        cat, tech, text, note, ref = CLAIMED[pid]
        checks.append({
            "property_id": pid,
            "quick_cmd": f"./check {pid} --tier quick",
            "thorough_cmd": f"./check {pid} --tier thorough",
            "evidence_file": f"evidence/{pid}.json",
            "replay_cmd_template": f"./check {pid} --replay {{path}}",
            "engine": "sv-harness",
            "level_claimed": {"category": cat, "text": text, "design_ref": ref},
            "level_note": note,
            "technique": tech,
        })
    else:
        na.append({"property_id": pid, "reason": NOT_YET.get(pid, "check not built yet in this revision of /verif (planned with the same technique, see DESIGN.md §4); not claimed until it is silent on the unchanged tree and shown sensitive")})

hooks_commits = []
try:
    out = subprocess.run(["git", "-C", "/repo", "log", "--format=%H %s"], capture_output=True, text=True).stdout
    for line in out.splitlines():
        h, _, s = line.partition(" ")
        if s.startswith("verif-hook:"):
            hooks_commits.append(h)
except Exception:
    pass

manifest = {
    "version": 1,
    "setup_cmd": "cd /verif/harness && CARGO_NET_OFFLINE=true cargo build --release --offline",
    "hooks": {
        "guard": "--cfg samlang_verif",
        "enable": "harness/.cargo/config.toml sets rustflags = [\"--cfg\", \"samlang_verif\"] for the harness build, which compiles /repo/crates/* as path dependencies",
        "baseline_off_cmd": "cd /repo && cargo test --workspace --no-fail-fast --offline",
        "source_commits": hooks_commits,
        "add_only": True,
    },
    "engines": [
        {"name": "sv-harness", "path": "harness/", "serves_properties": [c["property_id"] for c in checks],
         "kind_free_text": "Rust crate linking the samlang crates directly; proptest TestRunner over a u32 choice tape (whole-value shrinking), process-isolated workers, reference models/interpreters as oracles, replay files, known-findings protocol"},
    ],
    "checks": checks,
    "not_applicable": na,
    "notes": "All checks: ./check <ID> [--tier quick|thorough] [--replay FILE]; VERIF_SEED selects the PRNG seed; exit 0 held / 1 VIOLATION / 2 inconclusive. known_findings.json lists recorded findings; replays/<ID>/ are regression inputs replayed first on every run.",
}
json.dump(manifest, open(os.path.join(HERE, "MANIFEST.json"), "w"), indent=1)
print("claimed:", [c["property_id"] for c in checks], "not_applicable:", len(na))
