//! C14 – source positions are faithful to the text.

use super::fmt_common::*;
use crate::engine::{Outcome, Params, Prop, Tape, Tier, fnv};
use crate::model::astwalk::{Node, walk_module};
use crate::model::front;
use crate::model::toks::{Kind, line_lengths, tokenize};
use samlang_ast::Location;
use serde_json::{Value, json};
use std::collections::HashMap;

pub struct C14;

pub fn loc_str(l: &Location) -> String {
  format!("{}:{}-{}:{}", l.start.0 + 1, l.start.1 + 1, l.end.0 + 1, l.end.1 + 1)
}

/// Location well-formedness against the document. Returns a violation class or None.
pub fn loc_in_doc(l: &Location, lines: &[u32]) -> Option<&'static str> {
  if l.start > l.end {
    return Some("start-after-end");
  }
  for (p, which) in [(l.start, "start"), (l.end, "end")] {
    if (p.0 as usize) >= lines.len() {
      return Some(if which == "start" { "start-line-outside-document" } else { "end-line-outside-document" });
    }
    if p.1 > lines[p.0 as usize] {
      return Some(if which == "start" { "start-column-beyond-line" } else { "end-column-beyond-line" });
    }
  }
  None
}

pub fn slice<'a>(text: &'a str, line_offsets: &[usize], l: &Location) -> Option<&'a str> {
  let s = line_offsets.get(l.start.0 as usize)? + l.start.1 as usize;
  let e = line_offsets.get(l.end.0 as usize)? + l.end.1 as usize;
  text.get(s..e)
}

pub fn line_offsets(text: &str) -> Vec<usize> {
  let mut v = vec![0];
  for (i, b) in text.bytes().enumerate() {
    if b == b'\n' {
      v.push(i + 1);
    }
  }
  v
}

pub fn check_nodes(text: &str, nodes: &[Node], out: &mut Outcome) -> usize {
  let lines = line_lengths(text);
  let offs = line_offsets(text);
  let mut checked = 0;
  let mut last_in_list: HashMap<usize, usize> = HashMap::new();
  for (i, n) in nodes.iter().enumerate() {
    checked += 1;
    if let Some(v) = loc_in_doc(&n.loc, &lines) {
      out.fail(format!("ast-location/{v}/{}", n.kind), format!("{} node has location {} in a document of {} lines", n.kind, loc_str(&n.loc), lines.len()));
      continue;
    }
    if let Some(p) = n.parent {
      let pl = &nodes[p].loc;
      if !(pl.start <= n.loc.start && n.loc.end <= pl.end) {
        out.fail(
          format!("ast-location/parent-does-not-enclose/{}>{}", nodes[p].kind, n.kind),
          format!("{} at {} is not enclosed by its parent {} at {}\n{}", n.kind, loc_str(&n.loc), nodes[p].kind, loc_str(pl), context(text, &n.loc)),
        );
      }
    }
    if n.kind == "import-module" {
      // the location must spell the dotted path (whitespace / comments between the parts allowed)
      let got = slice(text, &offs, &n.loc);
      let spelled: Option<String> = got.map(|g| tokenize(g).iter().filter(|t| !t.is_comment()).map(|t| t.text.clone()).collect::<Vec<_>>().join(""));
      if spelled.as_deref() != n.name.as_deref() {
        out.fail(
          "ast-location/name-slice-mismatch/import-module".to_string(),
          format!("import of module `{}` has module location {} which spells {:?}\n{}", n.name.as_deref().unwrap_or(""), loc_str(&n.loc), got, context(text, &n.loc)),
        );
      }
    } else if let Some(name) = &n.name {
      let got = slice(text, &offs, &n.loc);
      if got != Some(name.as_str()) {
        out.fail(
          format!("ast-location/name-slice-mismatch/{}", n.kind),
          format!("{} `{}` has location {} which spells {:?}\n{}", n.kind, name, loc_str(&n.loc), got, context(text, &n.loc)),
        );
      }
    }
    if let Some(l) = n.list {
      if let Some(prev) = last_in_list.get(&l) {
        let pl = &nodes[*prev].loc;
        if pl.end > n.loc.start {
          out.fail(
            format!("ast-location/siblings-overlap/{}~{}", nodes[*prev].kind, n.kind),
            format!("{} at {} overlaps or precedes its earlier sibling {} at {}\n{}", n.kind, loc_str(&n.loc), nodes[*prev].kind, loc_str(pl), context(text, &n.loc)),
          );
        }
      }
      last_in_list.insert(l, i);
    }
  }
  checked
}

pub fn context(text: &str, l: &Location) -> String {
  let lines: Vec<&str> = text.split('\n').collect();
  let lo = (l.start.0 as usize).saturating_sub(1).min(lines.len());
  let hi = (l.start.0 as usize + 2).min(lines.len());
  lines[lo..hi].iter().map(|s| short(s, 200)).collect::<Vec<_>>().join("\n")
}

impl Prop for C14 {
  fn id(&self) -> &'static str {
    "C14"
  }
  fn rule(&self) -> String {
    "syntactically valid modules (G5) with adversarial layout (tabs, CRLF, blank lines, tight punctuation, multi-line block comments, strings containing // and /*, non-ASCII in strings and comments, very long lines) plus every tests/*.sam and std/*.sam; oracle for every location in the parsed tree: inside the document (line < #lines, byte column <= line length), start <= end, enclosed by the parent's location, elements of one syntactic list ordered and disjoint, and for every name the text slice at its location equals the name; the harness's own tokenizer supplies the ground-truth positions of identifier tokens (every identifier token must be the location of some name node and vice versa); also every syntax-error location when the input is a mutilated variant; non-trivial = >=3 lines and a multi-line comment, CRLF, tab or non-ASCII byte precedes some identifier; distinct = hash of the text".into()
  }
  fn assumptions(&self) -> Vec<String> {
    vec![
      "columns are byte offsets within the line (the lexer counts bytes); a trailing \\r belongs to the line".into(),
      "the location of a class's type definition deliberately starts at the type-parameter list (source_parser.rs parse_class); type parameters and type definition are therefore not treated as list siblings".into(),
    ]
  }
  fn params(&self, tier: Tier) -> Params {
    match tier {
      Tier::Quick => Params { cases: 40_000, tape_len: 1500, workers: 14, stack_mb: 8, worker_timeout_s: 900, shrink_iters: 4000 },
      Tier::Thorough => Params { cases: 800_000, tape_len: 5000, workers: 16, stack_mb: 8, worker_timeout_s: 4 * 3600, shrink_iters: 4000 },
    }
  }
  fn generate(&self, t: &mut Tape, tier: Tier) -> Value {
    let mut v = gen_text(t, tier, Profile::Layout);
    // a fraction of the cases is truncated / mutilated so that diagnostics locations are exercised
    if t.bool(1, 5) {
      let text = v["text"].as_str().unwrap().to_string();
      let mut cut = t.choose(text.len().max(1));
      while !text.is_char_boundary(cut) {
        cut -= 1;
      }
      v["text"] = json!(text[..cut].to_string());
      v["mutilated"] = json!(true);
    }
    v
  }
  fn fixed_cases(&self, _tier: Tier) -> Vec<Value> {
    repo_fixed_cases(&[100])
  }
  fn check(&self, art: &Value) -> Outcome {
    let mut out = Outcome::default();
    let text = art["text"].as_str().unwrap_or("");
    out.key = fnv(text.as_bytes());
    let p0 = match front::parse(text, &["Test"]) {
      Ok(p) => p,
      Err(_) => return Outcome::discarded("parser-panics-on-input(C05)"),
    };
    let lines = line_lengths(text);
    // diagnostics locations (any input)
    for (loc, msg) in &p0.syntax_errors {
      if let Some(v) = loc_in_doc(loc, &lines) {
        out.fail(
          format!("diagnostic-location/{v}/{}", front::syntax_error_class(msg)),
          format!("syntax error `{msg}` reported at {} in a document of {} lines (last line has {} bytes)\n{}", loc_str(loc), lines.len(), lines.last().unwrap_or(&0), short(text, 800)),
        );
      }
    }
    out.label(if p0.syntax_errors.is_empty() { "input:valid" } else { "input:with-syntax-errors" });
    // checker diagnostics: primary and reference locations
    {
      let mut sources = HashMap::new();
      sources.insert(p0.mr, p0.module.clone());
      let mut es = samlang_errors::ErrorSet::new();
      if crate::engine::guard(|| samlang_checker::type_check_sources(&sources, &mut es)).is_ok() {
        let texts: HashMap<samlang_heap::ModuleReference, String> = HashMap::from([(p0.mr, text.to_string())]);
        let mut n = 0;
        for e in es.errors() {
          if e.location.module_reference != p0.mr {
            continue;
          }
          n += 1;
          let class = crate::engine::msg_class(&format!("{:?}", std::mem::discriminant(&e.detail)));
          if let Some(v) = loc_in_doc(&e.location, &lines) {
            out.fail(format!("diagnostic-location/{v}/checker"), format!("checker diagnostic ({class}) at {} in a document of {} lines\n{}", loc_str(&e.location), lines.len(), short(text, 800)));
          }
          if let Ok(ide) = crate::engine::guard(|| e.to_ide_format(&p0.heap, &texts)) {
            for r in &ide.reference_locs {
              if r.module_reference == p0.mr
                && let Some(v) = loc_in_doc(r, &lines)
              {
                out.fail(format!("diagnostic-location/{v}/checker-reference"), format!("reference location {} of a checker diagnostic is outside the document\n{}", loc_str(r), short(text, 800)));
              }
            }
          }
        }
        if n > 0 {
          out.label("diagnostics:checker>=1");
        }
      }
    }
    if p0.syntax_errors.is_empty() {
      let nodes = walk_module(&p0.heap, &p0.module);
      let n = check_nodes(text, &nodes, &mut out);
      out.label(format!("locations:{}", if n < 50 { "<50" } else if n < 200 { "50-199" } else { ">=200" }));
      // ground truth: identifier tokens <-> name nodes
      let toks = tokenize(text);
      let mut name_locs: HashMap<(u32, u32), &Node> = HashMap::new();
      for nd in nodes.iter().filter(|n| n.name.is_some() && n.kind != "import-module") {
        name_locs.insert((nd.loc.start.0, nd.loc.start.1), nd);
      }
      for t in toks.iter().filter(|t| matches!(t.kind, Kind::Upper | Kind::Lower) || (t.kind == Kind::Keyword && t.text == "this")) {
        match name_locs.get(&(t.line, t.col)) {
          Some(nd) => {
            if (nd.loc.end.0, nd.loc.end.1) != (t.end_line, t.end_col) || nd.name.as_deref() != Some(t.text.as_str()) {
              out.fail(
                format!("ast-location/identifier-token-mismatch/{}", nd.kind),
                format!("identifier token `{}` at {}:{}-{}:{} vs name node `{}` at {}", t.text, t.line + 1, t.col + 1, t.end_line + 1, t.end_col + 1, nd.name.as_deref().unwrap_or(""), loc_str(&nd.loc)),
              );
            }
          }
          None => {
            // module path components of imports have no node of their own
            out.label("ident-token-without-name-node");
          }
        }
      }
      // ground truth for construct boundaries: the token that starts / ends a node
      let by_start: HashMap<(u32, u32), &crate::model::toks::Tok> = toks.iter().filter(|t| !t.is_comment()).map(|t| ((t.line, t.col), t)).collect();
      let by_end: HashMap<(u32, u32), &crate::model::toks::Tok> = toks.iter().filter(|t| !t.is_comment()).map(|t| ((t.end_line, t.end_col), t)).collect();
      for nd in nodes.iter() {
        let (starts, ends): (&[&str], &[&str]) = match nd.kind {
          "class" | "interface" => (&["private", "class", "interface"], &["}"]),
          "member" => (&["private", "function", "method"], &[]),
          "let" => (&["let"], &[";"]),
          "if" => (&["if"], &["}"]),
          "match" => (&["match"], &["}"]),
          "block" | "pat-object" | "members" => (&["{"], &["}"]),
          "import" => (&["import"], &[]),
          "lambda" => (&["("], &[]),
          "tuple" | "expr-list" | "args" | "params" | "pat-tuple" | "lambda-params" | "annot-fn-params" | "variant-types" => (&["("], &[")"]),
          "targs" | "tparams" => (&["<"], &[">"]),
          "typedef" => (&["<", "("], &[")"]),
          "unary" => (&["!", "-"], &[]),
          "annot-fn" => (&["("], &[]),
          "extends" => (&[":"], &[]),
          "pat-wildcard" => (&["_"], &["_"]),
          _ => (&[], &[]),
        };
        if !starts.is_empty() {
          match by_start.get(&(nd.loc.start.0, nd.loc.start.1)) {
            Some(t) if starts.contains(&t.text.as_str()) => {}
            other => out.fail(
              format!("ast-location/boundary-token-mismatch/{}/start", nd.kind),
              format!("{} at {} starts at token {:?}, expected one of {:?}\n{}", nd.kind, loc_str(&nd.loc), other.map(|t| t.text.clone()), starts, context(text, &nd.loc)),
            ),
          }
        }
        if !ends.is_empty() {
          match by_end.get(&(nd.loc.end.0, nd.loc.end.1)) {
            Some(t) if ends.contains(&t.text.as_str()) => {}
            other => out.fail(
              format!("ast-location/boundary-token-mismatch/{}/end", nd.kind),
              format!("{} at {} ends at token {:?}, expected one of {:?}\n{}", nd.kind, loc_str(&nd.loc), other.map(|t| t.text.clone()), ends, context(text, &nd.loc)),
            ),
          }
        }
        if nd.kind == "literal" {
          let ok = match (by_start.get(&(nd.loc.start.0, nd.loc.start.1)), by_end.get(&(nd.loc.end.0, nd.loc.end.1))) {
            (Some(a), Some(b)) => a.off == b.off && (matches!(a.kind, Kind::Int | Kind::Str) || a.text == "true" || a.text == "false"),
            _ => false,
          };
          if !ok {
            out.fail("ast-location/boundary-token-mismatch/literal".to_string(), format!("literal at {} does not cover exactly one literal token\n{}", loc_str(&nd.loc), context(text, &nd.loc)));
          }
        }
      }
      let interesting_layout = text.contains("\r\n") || text.contains('\t') || !text.is_ascii() || toks.iter().any(|t| t.is_comment() && t.end_line > t.line);
      out.nontrivial = lines.len() >= 3 && interesting_layout;
      for (flag, name) in [(text.contains("\r\n"), "layout:CRLF"), (text.contains('\t'), "layout:tab"), (!text.is_ascii(), "layout:non-ascii"), (toks.iter().any(|t| t.is_comment() && t.end_line > t.line), "layout:multi-line-comment"), (lines.iter().any(|l| *l > 1000), "layout:line>1000B")] {
        if flag {
          out.label(name);
        }
      }
    }
    out.sample = Some(json!({"text": short(text, 500)}));
    out
  }
}
