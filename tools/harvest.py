#!/usr/bin/env python3
"""Developer tool: run a check in explore mode (never part of a registered command), collect one
minimal-ish sample per unknown signature and record them as OPEN findings with probes.
usage: tools/harvest.py <ID> [--seeds 1,2,3] [--tier quick] [--dry]
Every harvested entry must be reviewed by hand before it is committed."""
import json, os, subprocess, sys, glob, hashlib, shutil
HERE = os.path.dirname(os.path.dirname(os.path.abspath(__file__)))
pid = sys.argv[1]
seeds = [20260925]
tier = "quick"
dry = False
args = sys.argv[2:]
i = 0
while i < len(args):
    if args[i] == "--seeds":
        seeds = [int(x) for x in args[i + 1].split(",")]; i += 2
    elif args[i] == "--tier":
        tier = args[i + 1]; i += 2
    elif args[i] == "--dry":
        dry = True; i += 1
    else:
        raise SystemExit("bad arg " + args[i])
best = {}
for seed in seeds:
    vdir = os.path.join(HERE, "out", "violations", pid)
    shutil.rmtree(vdir, ignore_errors=True)
    env = dict(os.environ, VERIF_EXPLORE="1", VERIF_SEED=str(seed), VERIF_ROOT=HERE)
    subprocess.run([os.path.join(HERE, "harness/target/release/vcheck"), pid, "--tier", tier], env=env, stdout=subprocess.DEVNULL)
    for f in glob.glob(os.path.join(vdir, "*.json")):
        d = json.load(open(f))
        size = len(json.dumps(d.get("artifact")))
        sig = d["signature"]
        if sig not in best or size < best[sig][0]:
            best[sig] = (size, d)
kf_path = os.path.join(HERE, "known_findings.json")
kf = json.load(open(kf_path))
have = {(f["property"], f["signature"]) for f in kf["findings"]}
added = 0
for sig, (size, d) in sorted(best.items()):
    print(f"{size:7d}  {sig}")
    if (pid, sig) in have or dry:
        continue
    h = hashlib.sha1(sig.encode()).hexdigest()[:10]
    rel = f"replays/{pid}/kf-{h}.json"
    os.makedirs(os.path.join(HERE, "replays", pid), exist_ok=True)
    json.dump({"signature": sig, "artifact": d["artifact"]}, open(os.path.join(HERE, rel), "w"), indent=1)
    first = (d.get("detail") or "").split("\n")[0][:300]
    kf["findings"].append({"status": "open", "property": pid, "signature": sig, "what": f"{sig}: {first}", "repro": rel})
    added += 1
if not dry:
    json.dump(kf, open(kf_path, "w"), indent=1)
print("signatures:", len(best), "added:", added)
