//! Persistent node 22 worker (js/runner.js) executing emitted WebAssembly / TypeScript.

use serde_json::{Value, json};
use std::io::{BufRead, BufReader, Write};
use std::process::{Child, ChildStdin, Command, Stdio};
use std::sync::mpsc::{Receiver, channel};
use std::time::Duration;

pub const NODE_BIN: &str = "/root/.nvm/versions/node/v22.22.2/bin/node";

#[derive(Clone, Debug, PartialEq)]
pub struct Exec {
  pub lines: Vec<String>,
  /// ok | panic | trap | stack | compile-error | link-error | syntax-error | timeout | other | infra
  pub end: String,
  pub message: String,
}

pub struct Node {
  child: Child,
  stdin: ChildStdin,
  rx: Receiver<String>,
  next_id: u64,
  pub restarts: u64,
}

fn base64(bytes: &[u8]) -> String {
  const T: &[u8; 64] = b"ABCDEFGHIJKLMNOPQRSTUVWXYZabcdefghijklmnopqrstuvwxyz0123456789+/";
  let mut out = String::with_capacity(bytes.len() * 4 / 3 + 4);
  for c in bytes.chunks(3) {
    let b = [c[0], *c.get(1).unwrap_or(&0), *c.get(2).unwrap_or(&0)];
    let n = ((b[0] as u32) << 16) | ((b[1] as u32) << 8) | b[2] as u32;
    out.push(T[(n >> 18) as usize & 63] as char);
    out.push(T[(n >> 12) as usize & 63] as char);
    out.push(if c.len() > 1 { T[(n >> 6) as usize & 63] as char } else { '=' });
    out.push(if c.len() > 2 { T[n as usize & 63] as char } else { '=' });
  }
  out
}

impl Node {
  pub fn available() -> bool {
    std::path::Path::new(NODE_BIN).exists()
  }

  pub fn spawn() -> Option<Node> {
    let script = super::verif_root().join("harness").join("js").join("runner.js");
    let mut child = Command::new(NODE_BIN).arg(script).stdin(Stdio::piped()).stdout(Stdio::piped()).stderr(Stdio::null()).spawn().ok()?;
    let stdin = child.stdin.take()?;
    let stdout = child.stdout.take()?;
    let (tx, rx) = channel();
    std::thread::spawn(move || {
      let r = BufReader::new(stdout);
      for line in r.lines() {
        match line {
          Ok(l) => {
            if tx.send(l).is_err() {
              break;
            }
          }
          Err(_) => break,
        }
      }
    });
    Some(Node { child, stdin, rx, next_id: 0, restarts: 0 })
  }

  fn restart(&mut self) {
    let _ = self.child.kill();
    let _ = self.child.wait();
    if let Some(mut n) = Node::spawn() {
      n.restarts = self.restarts + 1;
      *self = n;
    }
  }

  fn request(&mut self, mut req: Value, timeout: Duration) -> Exec {
    self.next_id += 1;
    let id = self.next_id;
    req["id"] = json!(id);
    let line = serde_json::to_string(&req).unwrap();
    if self.stdin.write_all(line.as_bytes()).is_err() || self.stdin.write_all(b"\n").is_err() || self.stdin.flush().is_err() {
      // the worker died between two requests: one more attempt on a fresh worker
      self.restart();
      if self.stdin.write_all(line.as_bytes()).is_err() || self.stdin.write_all(b"\n").is_err() || self.stdin.flush().is_err() {
        return Exec { lines: vec![], end: "infra".into(), message: "node worker unavailable".into() };
      }
    }
    loop {
      match self.rx.recv_timeout(timeout) {
        Ok(l) => {
          let Ok(v) = serde_json::from_str::<Value>(&l) else { continue };
          if v["id"].as_u64() != Some(id) {
            continue;
          }
          return Exec {
            lines: v["lines"].as_array().cloned().unwrap_or_default().iter().map(|x| x.as_str().unwrap_or("").to_string()).collect(),
            end: v["end"]["type"].as_str().unwrap_or("other").to_string(),
            message: v["end"]["message"].as_str().unwrap_or("").to_string(),
          };
        }
        Err(std::sync::mpsc::RecvTimeoutError::Timeout) => {
          self.restart();
          return Exec { lines: vec![], end: "timeout".into(), message: "watchdog".into() };
        }
        Err(_) => {
          // the node process died while running this program (V8 out of memory, fatal error, ...)
          self.restart();
          return Exec { lines: vec![], end: "died".into(), message: "node worker died".into() };
        }
      }
    }
  }

  pub fn run_wasm(&mut self, wasm: &[u8], loader: &str, main: &str, timeout: Duration) -> Exec {
    let req = json!({"kind": "wasm", "wasm_b64": base64(wasm), "loader": loader, "main": main});
    let r = self.request(req.clone(), timeout);
    // a death may be incidental: once more on the fresh worker; twice in a row is the program's doing
    // (resource exhaustion inside the engine) and is reported as `timeout`-like, i.e. inconclusive
    if r.end == "died" {
      let r2 = self.request(req, timeout);
      Self::died_to_timeout(r2)
    } else {
      r
    }
  }

  pub fn run_ts(&mut self, code: &str, timeout: Duration) -> Exec {
    let req = json!({"kind": "ts", "code": code, "timeout_ms": timeout.as_millis() as u64});
    let r = self.request(req.clone(), timeout + Duration::from_secs(5));
    if r.end == "died" {
      let r2 = self.request(req, timeout + Duration::from_secs(5));
      Self::died_to_timeout(r2)
    } else {
      r
    }
  }

  fn died_to_timeout(r: Exec) -> Exec {
    if r.end == "died" { Exec { lines: vec![], end: "timeout".into(), message: "node process died twice while running this program (engine resource exhaustion)".into() } } else { r }
  }
}

impl Drop for Node {
  fn drop(&mut self) {
    let _ = self.child.kill();
    let _ = self.child.wait();
  }
}
