pub mod soup;
pub mod syngen;
