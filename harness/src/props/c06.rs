//! C06 – a program containing a static error is always rejected and never compiled.

use super::run_common::*;
use crate::engine::{Outcome, Params, Prop, Tape, Tier, fnv, guard};
use crate::generators::faults::{fault_kinds, inject};
use crate::generators::progen::{GenCfg, gen_program};
use crate::model::toks::{Kind, tokenize};
use samlang_errors::ErrorSet;
use samlang_heap::Heap;
use serde_json::{Value, json};
use std::collections::HashMap;

pub struct C06;

/// (total errors, errors located in `module`) of the front end on a multi-module program (+ needed std)
pub fn front_end_errors(mods: &Mods, module: &[String]) -> Result<(usize, usize, Vec<String>), (String, String)> {
  let mut heap = Heap::new();
  let mut parsed = HashMap::new();
  let mut es = ErrorSet::new();
  let user_texts: Vec<&str> = mods.iter().map(|(_, t)| t.as_str()).collect();
  let mut all: Mods = crate::model::front::needed_std(&mut heap, &user_texts);
  all.extend(mods.iter().cloned());
  let mut target = None;
  for (name, text) in &all {
    let mr = heap.alloc_module_reference_from_string_vec(name.clone());
    if name.as_slice() == module {
      target = Some(mr);
    }
    let m = guard(|| samlang_parser::parse_source_module_from_text(text, mr, &mut heap, &mut es))?;
    parsed.insert(mr, m);
  }
  guard(|| samlang_checker::type_check_sources(&parsed, &mut es))?;
  let errs = es.errors();
  let in_module = errs.iter().filter(|e| Some(e.location.module_reference) == target).count();
  let sources: HashMap<_, _> = HashMap::new();
  let rendered: Vec<String> = errs.iter().take(3).map(|e| e.to_ide_format(&heap, &sources).ide_error).collect();
  Ok((errs.len(), in_module, rendered))
}

impl Prop for C06 {
  fn id(&self) -> &'static str {
    "C06"
  }
  fn rule(&self) -> String {
    format!("single-fault mutants of G1 well-typed programs: one guaranteed-ill-typed edit chosen from {} fault kinds (wrong-typed operand / condition / argument / return expression / annotated let initialiser / unary operand, argument added / removed, wrong number of type arguments, unbound variable, unknown class / member / module, private member or class used from another module, missing or mistyped interface member, integer literal 2147483648..99999999999999999999 in any literal position, deleted match arm whose variant no other arm covers, violated type-parameter bound, ill-typed body of a hinted lambda, private field read from another class, a value of another module's private class reached through inference and then used by method call / field read / destructuring / match, an interface that gains several members no implementing class defines) at a tape-chosen site; the fault is guaranteed because the IR knows every expression's type and all generic calls carry explicit type arguments; oracle: the unmutated program has no diagnostics, the mutant has >=1 diagnostic located in the mutated module and compile_sources returns Err; non-trivial = every accepted host with an applied fault; distinct = hash of the mutant text; evidence tabulates fault kind x outcome", fault_kinds().len())
  }
  fn assumptions(&self) -> Vec<String> {
    vec![
      "a literal fault that the lexer legitimately merges with a preceding minus sign (-2147483648) is not a fault and is discarded".into(),
      "hosts the checker does not accept (none expected) are discarded and counted".into(),
    ]
  }
  fn level(&self) -> &'static str {
    "fault_enumeration"
  }
  fn params(&self, tier: Tier) -> Params {
    match tier {
      Tier::Quick => Params { cases: 20_000, tape_len: 1500, workers: 14, stack_mb: 16, worker_timeout_s: 1200, shrink_iters: 2000 },
      Tier::Thorough => Params { cases: 500_000, tape_len: 4000, workers: 16, stack_mb: 16, worker_timeout_s: 5 * 3600, shrink_iters: 2000 },
    }
  }
  fn generate(&self, t: &mut Tape, tier: Tier) -> Value {
    let kind = t.choose(fault_kinds().len());
    let mut cfg = GenCfg::default();
    if tier == Tier::Thorough {
      cfg.max_classes = 7;
      cfg.node_budget = 400;
    }
    let k = fault_kinds()[kind];
    cfg.force_interface = k.starts_with("interface:") || k.starts_with("bound:");
    cfg.force_multi_module = k.starts_with("visibility:");
    cfg.force_hof = k.contains("hinted-lambda");
    let (mut ir, _feats) = gen_program(t, cfg);
    let original = ir.render();
    let fault = inject(&mut ir, t, kind);
    let mutant = ir.render();
    match fault {
      Some(f) => json!({
        "modules": mutant.iter().map(|(n, t)| json!({"name": n, "text": t})).collect::<Vec<_>>(),
        "original": original.iter().map(|(n, t)| json!({"name": n, "text": t})).collect::<Vec<_>>(),
        "entry": ir.entry,
        "fault": {"kind": f.kind, "site": f.site, "module": f.module},
      }),
      None => json!({"modules": [], "original": [], "entry": ir.entry, "fault": {"kind": fault_kinds()[kind], "site": "none", "module": []}}),
    }
  }
  fn check(&self, art: &Value) -> Outcome {
    let mut out = Outcome::default();
    let (mods, entry) = mods_of(art);
    let kind = art["fault"]["kind"].as_str().unwrap_or("?").to_string();
    if mods.is_empty() {
      return Outcome::discarded(format!("no-site-for:{kind}"));
    }
    let original: Mods = mods_of(&json!({"modules": art["original"], "entry": art["entry"]})).0;
    let module: Vec<String> = art["fault"]["module"].as_array().cloned().unwrap_or_default().iter().map(|x| x.as_str().unwrap_or("").to_string()).collect();
    out.key = fnv(describe(&mods).as_bytes());
    if describe(&mods) == describe(&original) {
      return Outcome::discarded(format!("mutation-is-identity:{kind}"));
    }
    if kind == "literal:out-of-range" {
      // the lexer merges `-` `2147483648` into INT_MIN: that is not a fault
      let big = |t: &crate::model::toks::Tok| t.kind == Kind::Int && t.text.len() >= 10 && t.text.parse::<i64>().map(|v| v > i32::MAX as i64).unwrap_or(true);
      if !mods.iter().any(|(_, text)| tokenize(text).iter().any(big)) {
        return Outcome::discarded("literal-merged-into-INT_MIN");
      }
    }
    match front_end_errors(&original, &module) {
      Ok((0, _, _)) => {}
      Ok((_, _, msgs)) => return Outcome::discarded(format!("host-rejected:{}", crate::engine::msg_class(msgs.first().map(|s| s.as_str()).unwrap_or("")))),
      Err(_) => return Outcome::discarded("host-panics(C05)"),
    }
    out.nontrivial = true;
    out.label(format!("fault:{kind}"));
    out.sample = Some(json!({"fault": art["fault"], "mutant": super::fmt_common::short(&describe(&mods), 700)}));
    let detail = |what: &str| format!("{what}\nfault: {} at {} (module {})\n{}", kind, art["fault"]["site"], module.join("."), describe(&mods));
    match front_end_errors(&mods, &module) {
      Err(e) => {
        out.label(format!("outcome:{kind}:front-end-panic"));
        // a crash is not an accept, but it is C05's finding; the mutant is not decided here
        out.label(format!("panic:{}", e.0));
        return Outcome::discarded("mutant-panics-front-end(C05)");
      }
      Ok((total, in_module, _)) => {
        if total == 0 {
          out.fail(format!("fault-accepted/{kind}"), detail("the front end reports no error for a program with a guaranteed static error"));
        } else if in_module == 0 {
          out.fail(format!("error-not-in-offending-module/{kind}"), detail(&format!("{total} diagnostics, none located in the offending module")));
        } else {
          out.label(format!("outcome:{kind}:rejected"));
        }
      }
    }
    match compile(&mods, &entry) {
      crate::model::exec::CompileOutcome::Ok(_) => out.fail(format!("compiled-despite-static-error/{kind}"), detail("compile_sources emitted code for a program with a guaranteed static error")),
      crate::model::exec::CompileOutcome::Rejected(_) => {}
      crate::model::exec::CompileOutcome::Panicked(_) => out.label("compile:panicked(C05)"),
    }
    out
  }
}

use crate::model::exec::compile;
