//! C13 – type inference is stable under meaning-preserving rewrites of the source.

use super::c06::front_end_errors;
use super::run_common::*;
use crate::engine::{Outcome, Params, Prop, Tape, Tier, fnv};
use crate::generators::faults::{fault_kinds, inject};
use crate::generators::progen::gen_program;
use crate::generators::rewrites::{REWRITES, apply};
use serde_json::{Value, json};

pub struct C13;

fn mods_json(m: &Mods) -> Value {
  json!(m.iter().map(|(n, t)| json!({"name": n, "text": t})).collect::<Vec<_>>())
}

/// A dedicated host family for bounded type parameters of classes and functions: the bound of one
/// parameter mentions another parameter that is declared earlier, later, or both ways. The less
/// annotated form infers the instantiation; the rewrite writes the inferred type out as a let
/// annotation or as explicit type arguments. Returns (before, after, description).
fn bounded_host(t: &mut Tape) -> (String, String, String) {
  let shapes = [
    ("<A: Conv<B>, B>", ["A", "B"], "bound-mentions-later-parameter"),
    ("<B, A: Conv<B>>", ["B", "A"], "bound-mentions-earlier-parameter"),
    ("<A: Conv<B>, B: Conv<A>>", ["A", "B"], "mutual-bounds"),
    ("<B: Conv<A>, A: Conv<B>>", ["B", "A"], "mutual-bounds-reversed"),
  ];
  let (tparams, order, shape) = shapes[t.choose(shapes.len())];
  // A is instantiated with `x`, B with `y`; Feet: Conv<Meters>, Meters: Conv<Feet>
  let swap = t.bool(1, 2);
  let (x, y) = if swap { ("Meters", "Feet") } else { ("Feet", "Meters") };
  let targ = |p: &str| if p == "A" { x } else { y };
  let targs = format!("{}, {}", targ(order[0]), targ(order[1]));
  let mut head = String::new();
  head.push_str("interface Conv<T> {\n  method conv(): T\n}\n\n");
  head.push_str("class Feet(val v: int) : Conv<Meters> {\n  function of(v: int): Feet = Feet.init(v)\n\n  method conv(): Meters = Meters.init(this.v * 3)\n}\n\n");
  head.push_str("class Meters(val v: int) : Conv<Feet> {\n  function of(v: int): Meters = Meters.init(v)\n\n  method conv(): Feet = Feet.init(this.v + 1)\n}\n\n");
  head.push_str(&format!("class Rel{tparams}(val a: A, val b: B) {{\n  method left(): A = this.a\n\n  method converted(): B = this.a.conv()\n}}\n\n"));
  head.push_str("class Crate<T>(Hollow, Full(T)) {\n  function <T> count(c: Crate<T>): int = 0\n}\n\n");
  head.push_str(&format!("class Main {{\n  function {tparams} mk(a: A, b: B): B = a.conv()\n\n  function <T> id(x: T): T = x\n\n  function <T> app(x: T, f: (T) -> T): T = f(x)\n\n  function main(): unit = {{\n"));
  let tail = "  }\n}\n";
  let (ax, by) = (format!("{x}.of({})", 1 + t.choose(9)), format!("{y}.of({})", 1 + t.choose(9)));
  // a type argument that nothing determines (`Crate.Hollow()` alone) inside an argument of an implicitly
  // instantiated call: "not enough context" in every spelling
  if t.bool(1, 5) {
    let inner = "Crate.count(Crate.Hollow())";
    let (b, a, what) = match t.choose(3) {
      0 => (format!("    let m = Main.id({inner});\n"), format!("    let m = Main.id<int>({inner});\n"), "explicit-type-arguments(outer call, undetermined type argument inside)"),
      1 => (format!("    let m = Main.id({inner});\n"), format!("    let m = Main.id({{ {inner} }});\n"), "wrap-in-block(undetermined type argument inside)"),
      _ => (format!("    let m = Main.app(1, (v: int) -> {inner});\n"), format!("    let m = Main.app<int>(1, (v: int) -> {inner});\n"), "explicit-type-arguments(outer call, undetermined type argument in lambda body)"),
    };
    let use_m = "    let _ = Process.println(Str.fromInt(m));\n";
    return (format!("{head}{b}{use_m}{tail}"), format!("{head}{a}{use_m}{tail}"), format!("{what}/{shape}/rejected-host"));
  }
  // a violated bound (B instantiated with the class of `x`, which does not convert to itself) reached
  // through implicit instantiation inside an argument of another implicitly instantiated call: rejected
  // in every spelling
  if t.bool(1, 3) {
    let bad = format!("{x}.of({})", 1 + t.choose(9));
    let inner = format!("Main.mk({ax}, {bad})", ax = format!("{x}.of({})", 1 + t.choose(9)));
    let bad_targs = format!("{}, {}", if order[0] == "A" { x } else { x }, x);
    let (b, a, what) = match t.choose(4) {
      0 => (format!("    let m = Main.id({inner});\n"), format!("    let m = Main.id<{x}>({inner});\n"), "explicit-type-arguments(outer call, bound violated inside)"),
      1 => (format!("    let m = Main.id({inner});\n"), format!("    let m = Main.id({});\n", inner.replacen("Main.mk(", &format!("Main.mk<{bad_targs}>("), 1)), "explicit-type-arguments(inner call, bound violated)"),
      2 => (format!("    let m = Main.id({inner});\n"), format!("    let m = Main.id({{ {inner} }});\n"), "wrap-in-block(bound violated inside)"),
      _ => (format!("    let m = Main.app({bad}, (v: {x}) -> {inner});\n"), format!("    let m = Main.app<{x}>({bad}, (v: {x}) -> {inner});\n"), "explicit-type-arguments(outer call, bound violated in lambda body)"),
    };
    let use_m = "    let _ = Process.println(Str.fromInt(m.v));\n";
    return (format!("{head}{b}{use_m}{tail}"), format!("{head}{a}{use_m}{tail}"), format!("{what}/{shape}/rejected-host"));
  }
  let (before, after, what) = match t.choose(4) {
    0 => (
      format!("    let r = Rel.init({ax}, {by});\n    let _ = Process.println(Str.fromInt(r.converted().v + r.left().v));\n"),
      format!("    let r: Rel<{targs}> = Rel.init({ax}, {by});\n    let _ = Process.println(Str.fromInt(r.converted().v + r.left().v));\n"),
      "annotate-let",
    ),
    1 => (
      format!("    let r = Rel.init({ax}, {by});\n    let _ = Process.println(Str.fromInt(r.converted().v + r.left().v));\n"),
      format!("    let r = Rel.init<{targs}>({ax}, {by});\n    let _ = Process.println(Str.fromInt(r.converted().v + r.left().v));\n"),
      "explicit-type-arguments",
    ),
    2 => (
      format!("    let m = Main.mk({ax}, {by});\n    let _ = Process.println(Str.fromInt(m.v));\n"),
      format!("    let m = Main.mk<{targs}>({ax}, {by});\n    let _ = Process.println(Str.fromInt(m.v));\n"),
      "explicit-type-arguments(function)",
    ),
    _ => (
      format!("    let g: (Rel<{targs}>) -> int = (r) -> r.converted().v;\n    let _ = Process.println(Str.fromInt(g(Rel.init({ax}, {by}))));\n"),
      format!("    let g: (Rel<{targs}>) -> int = (r: Rel<{targs}>) -> r.converted().v;\n    let _ = Process.println(Str.fromInt(g(Rel.init({ax}, {by}))));\n"),
      "annotate-lambda",
    ),
  };
  (format!("{head}{before}{tail}"), format!("{head}{after}{tail}"), format!("{what}/{shape}"))
}

impl Prop for C13 {
  fn id(&self) -> &'static str {
    "C13"
  }
  fn rule(&self) -> String {
    "hosts: (1 in 12) a family of programs around a generic class and a generic function whose type-parameter bounds mention another parameter declared later, earlier or both ways (`class Rel<A: Conv<B>, B>`), in an inferred spelling and the same program with the inferred instantiation written as a let annotation, as explicit type arguments or as a lambda parameter annotation; otherwise G1 well-typed programs (accepted) and their single-fault mutants (rejected); rewrites applied on the typed IR: alpha-renaming of every local, permuting classes / members, renaming every local binder after its scope level so that sibling scopes reuse names (the reverse of renaming to fresh names), wrapping a tape-chosen expression in parentheses or a block, annotating inferred lambda parameters (optionally after dropping type arguments inside the host so that lambda bodies need their expected type), dropping let annotations, dropping lambda parameter annotations where a let annotation supplies the hint, moving a class into a new module with the corresponding imports; oracle (metamorphic): the checker's verdict is identical before and after (for annotation-dropping rewrites only accepted hosts are used and a rejection of the less annotated form is counted, not reported, because the property only speaks about making inferred types explicit), and for accepted pairs the emitted WebAssembly of both forms prints the same lines and ends the same way, equal to the reference interpreter's run; non-trivial = the rewrite changed the text and the host has >=1 generic call, lambda or match; distinct = hash of both texts".into()
  }
  fn assumptions(&self) -> Vec<String> {
    vec!["rewrites are performed on the generator's IR, so they are meaning-preserving by construction (names are unique per program; imports are derived from the module of every referenced class)".into(), "pairs on which the compiler crashes or emits an unloadable module are C03's findings and are discarded here".into()]
  }
  fn params(&self, tier: Tier) -> Params {
    match tier {
      Tier::Quick => Params { cases: 6_000, tape_len: 1500, workers: 14, stack_mb: 64, worker_timeout_s: 1500, shrink_iters: 600 },
      Tier::Thorough => Params { cases: 100_000, tape_len: 4000, workers: 16, stack_mb: 64, worker_timeout_s: 5 * 3600, shrink_iters: 600 },
    }
  }
  fn generate(&self, t: &mut Tape, tier: Tier) -> Value {
    if t.bool(1, 12) {
      let (b, a, what) = bounded_host(t);
      let m = |x: &str| json!([{"name": ["M"], "text": x}]);
      return json!({"before": m(&b), "after": m(&a), "entry": ["M"], "rewrite": format!("bounded-generics:{}", what.split('/').next().unwrap_or("")), "what": what, "pre_step": Value::Null, "fault": Value::Null, "features": ["generic-bounded-class", "inference"]});
    }
    let rewrite = REWRITES[t.choose(REWRITES.len())];
    let rejected_host = !rewrite.starts_with("drop-") && t.bool(1, 4);
    let cfg = super::behav::cfg_for("C13", tier);
    let (mut ir, feats) = gen_program(t, cfg);
    let mut fault = Value::Null;
    if rejected_host {
      let k = t.choose(fault_kinds().len());
      if let Some(f) = inject(&mut ir, t, k) {
        fault = json!({"kind": f.kind, "site": f.site});
      }
    }
    let mut pre = Value::Null;
    if rewrite == "annotate-lambda" && t.bool(2, 3) {
      // hosts whose lambda bodies need the expected type: type arguments dropped first (not judged)
      pre = json!(apply(&mut ir, t, "drop-type-arguments-deep"));
    }
    let before = ir.render();
    let what = apply(&mut ir, t, rewrite);
    let after = ir.render();
    json!({"before": mods_json(&before), "after": mods_json(&after), "entry": ir.entry, "rewrite": rewrite, "what": what, "pre_step": pre, "fault": fault, "features": feats})
  }
  fn check(&self, art: &Value) -> Outcome {
    let mut out = Outcome::default();
    let rewrite = art["rewrite"].as_str().unwrap_or("?").to_string();
    if art["what"].is_null() {
      return Outcome::discarded(format!("rewrite-not-applicable:{rewrite}"));
    }
    let (before, entry) = mods_of(&json!({"modules": art["before"], "entry": art["entry"]}));
    let (after, _) = mods_of(&json!({"modules": art["after"], "entry": art["entry"]}));
    let (tb, ta) = (describe(&before), describe(&after));
    out.key = fnv(format!("{tb}\u{1}{ta}").as_bytes());
    if tb == ta {
      return Outcome::discarded(format!("rewrite-is-identity:{rewrite}"));
    }
    let none: Vec<String> = vec![];
    let vb = match front_end_errors(&before, &none) {
      Ok((n, _, m)) => (n, m),
      Err(_) => return Outcome::discarded("front-end-panics(C05)"),
    };
    let va = match front_end_errors(&after, &none) {
      Ok((n, _, m)) => (n, m),
      Err(_) => return Outcome::discarded("front-end-panics(C05)"),
    };
    let (acc_b, acc_a) = (vb.0 == 0, va.0 == 0);
    let host = if acc_b { "accepted" } else { "rejected" };
    out.label(format!("rewrite:{rewrite}/host:{host}"));
    let feats: Vec<String> = art["features"].as_array().cloned().unwrap_or_default().iter().map(|x| x.as_str().unwrap_or("").to_string()).collect();
    out.nontrivial = feats.iter().any(|f| f.starts_with("generic") || f.contains("lambda") || f == "match" || f.starts_with("inference"));
    out.sample = Some(json!({"rewrite": rewrite, "what": art["what"], "host": host, "before": super::fmt_common::short(&tb, 500), "after": super::fmt_common::short(&ta, 500)}));
    let detail = |what: &str| format!("{what}\nrewrite: {rewrite} ({})\ndiagnostics before: {:?}\ndiagnostics after: {:?}\n=== before ===\n{tb}\n=== after ===\n{ta}", art["what"], vb.1, va.1);
    if acc_b != acc_a {
      if rewrite.starts_with("drop-") && acc_b && !acc_a {
        // the less annotated form needs the annotation: counted, not a flip in the property's direction
        out.label(format!("needs-annotation:{rewrite}"));
        return out;
      }
      if rewrite == "annotate-lambda" && !acc_b {
        // the host's parameter types were not inferable, so the annotation is not "an inferred type made explicit"
        out.label("host-needed-the-annotation:annotate-lambda");
        return out;
      }
      out.fail(format!("verdict-flip/{rewrite}/{}", if acc_b { "accepted->rejected" } else { "rejected->accepted" }), detail("the checker's verdict changed under a meaning-preserving rewrite"));
      return out;
    }
    if !acc_b {
      return out;
    }
    // behaviour of both forms through the real pipeline, against the reference
    let Some(reference) = reference_run(&before, &entry, 300_000) else { return out };
    if matches!(reference.end, crate::model::interp::End::Budget | crate::model::interp::End::Excluded(_) | crate::model::interp::End::Stuck(_)) {
      out.label("behaviour:not-compared(reference excluded/budget)");
      return out;
    }
    let mut runs = vec![];
    for (which, mods) in [("before", &before), ("after", &after)] {
      // split-module moves the entry class only when it is not Main; the entry stays
      match run_pipeline(mods, &entry, false) {
        Pipeline::Executed(x) => {
          if matches!(x.wasm.end.as_str(), "compile-error" | "link-error" | "timeout" | "infra") {
            out.label("behaviour:not-compared(artefact not loadable, C03)");
            return out;
          }
          runs.push((which, x.wasm.clone()));
        }
        Pipeline::NoNode => return Outcome::discarded("INFRA:node-unavailable"),
        _ => {
          out.label("behaviour:not-compared(compile failed, C03)");
          return out;
        }
      }
    }
    let (b, a) = (&runs[0].1, &runs[1].1);
    if b.lines != a.lines || b.end != a.end || (b.end == "panic" && b.message != a.message) {
      out.fail(
        format!("behaviour-changed/{rewrite}"),
        detail(&format!("the compiled program behaves differently after the rewrite: {} | before: {} {:?} | after: {} {:?}", first_diff(&b.lines, &a.lines), exec_str(b), b.lines.iter().take(8).collect::<Vec<_>>(), exec_str(a), a.lines.iter().take(8).collect::<Vec<_>>())),
      );
    }
    out.label("behaviour:compared");
    out
  }
}
