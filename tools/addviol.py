#!/usr/bin/env python3
"""Developer tool: record the (shrunk) violations of the last normal run of <ID> as OPEN findings.
usage: tools/addviol.py <ID>   -- review known_findings.json by hand afterwards."""
import json, os, sys, glob, hashlib
HERE = os.path.dirname(os.path.dirname(os.path.abspath(__file__)))
pid = sys.argv[1]
kf_path = os.path.join(HERE, "known_findings.json")
kf = json.load(open(kf_path))
have = {(f["property"], f["signature"]): f for f in kf["findings"]}
for f in glob.glob(os.path.join(HERE, "out", "violations", pid, "*.json")):
    d = json.load(open(f))
    sig = d["signature"]
    h = hashlib.sha1(sig.encode()).hexdigest()[:10]
    rel = f"replays/{pid}/kf-{h}.json"
    os.makedirs(os.path.join(HERE, "replays", pid), exist_ok=True)
    json.dump({"signature": sig, "artifact": d["artifact"]}, open(os.path.join(HERE, rel), "w"), indent=1)
    first = (d.get("detail") or "").split("\n")[0][:300]
    if (pid, sig) in have:
        have[(pid, sig)]["repro"] = rel
        print("updated repro for", sig)
    else:
        kf["findings"].append({"status": "open", "property": pid, "signature": sig, "what": f"{sig}: {first}", "repro": rel})
        print("added", sig)
json.dump(kf, open(kf_path, "w"), indent=1)
