//! Thin wrappers around the public front-end APIs with panic containment.

use crate::engine::guard;
use samlang_ast::Location;
use samlang_ast::source::Module;
use samlang_errors::{ErrorDetail, ErrorSet};
use samlang_heap::{Heap, ModuleReference};

pub struct Parsed {
  pub heap: Heap,
  pub mr: ModuleReference,
  pub module: Module<()>,
  pub syntax_errors: Vec<(Location, String)>,
}

pub type Panic = (String, String);

pub fn parse_in(heap: &mut Heap, mr: ModuleReference, text: &str) -> Result<(Module<()>, Vec<(Location, String)>), Panic> {
  let mut es = ErrorSet::new();
  let module = guard(|| samlang_parser::parse_source_module_from_text(text, mr, heap, &mut es))?;
  let mut errs = vec![];
  for e in es.errors() {
    if let ErrorDetail::InvalidSyntax(s) = &e.detail {
      errs.push((e.location, s.clone()));
    }
  }
  Ok((module, errs))
}

pub fn parse(text: &str, name: &[&str]) -> Result<Parsed, Panic> {
  let mut heap = Heap::new();
  let mr = heap.alloc_module_reference_from_string_vec(name.iter().map(|s| s.to_string()).collect());
  let (module, syntax_errors) = parse_in(&mut heap, mr, text)?;
  Ok(Parsed { heap, mr, module, syntax_errors })
}

pub fn print(p: &Parsed, width: usize) -> Result<String, Panic> {
  guard(|| samlang_printer::pretty_print_source_module(&p.heap, width, &p.module))
}

/// `Expected: X, actual: Y.`-style messages with the concrete token replaced by its class.
pub fn syntax_error_class(msg: &str) -> String {
  let mut out = String::new();
  for (i, part) in msg.split("actual: ").enumerate() {
    if i == 0 {
      out.push_str(part);
      continue;
    }
    out.push_str("actual: ");
    let tok = part.trim_end_matches('.');
    let toks = super::toks::tokenize(tok);
    match toks.first() {
      Some(t) if toks.len() == 1 => out.push_str(&t.class()),
      _ => out.push_str(&crate::engine::msg_class(tok)),
    }
  }
  // "Expected identifier, but get x"
  if let Some(idx) = out.find("but get ") {
    let tail = out[idx + 8..].to_string();
    let toks = super::toks::tokenize(&tail);
    if toks.len() == 1 {
      out.truncate(idx + 8);
      out.push_str(&toks[0].class());
    }
  }
  if let Some(idx) = out.find("interfaces: ") {
    let tail = out[idx + 12..].to_string();
    let toks = super::toks::tokenize(&tail);
    if toks.len() == 1 {
      out.truncate(idx + 12);
      out.push_str(&toks[0].class());
    }
  }
  out.chars().take(90).collect()
}
