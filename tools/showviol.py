#!/usr/bin/env python3
import json,glob,sys
pid=sys.argv[1]; n=int(sys.argv[2]) if len(sys.argv)>2 else 2500
for f in sorted(glob.glob(f'/verif/out/violations/{pid}/*.json')):
    d=json.load(open(f))
    print('#####', d['signature'][:200]); print((d.get('detail') or '')[:n])
