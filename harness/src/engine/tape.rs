//! The choice tape: the only source of randomness for every generator.
//! A generator is a deterministic function of the tape; the tape is what proptest
//! generates and shrinks (`vec(any::<u32>(), 0..LEN)`), so programs, documents and
//! histories shrink as whole values. An exhausted tape answers 0, and every generator
//! is written so that choice 0 is the simplest alternative.

#[derive(Clone, Debug)]
pub struct Tape {
  data: Vec<u32>,
  pos: usize,
}

impl Tape {
  pub fn new(data: Vec<u32>) -> Tape {
    Tape { data, pos: 0 }
  }

  pub fn from_bytes(bytes: &[u8]) -> Tape {
    let mut data = Vec::with_capacity(bytes.len() / 4 + 1);
    for c in bytes.chunks(4) {
      let mut b = [0u8; 4];
      b[..c.len()].copy_from_slice(c);
      data.push(u32::from_le_bytes(b));
    }
    Tape::new(data)
  }

  pub fn data(&self) -> &[u32] {
    &self.data
  }

  pub fn consumed(&self) -> usize {
    self.pos
  }

  pub fn exhausted(&self) -> bool {
    self.pos >= self.data.len()
  }

  pub fn raw(&mut self) -> u32 {
    let v = self.data.get(self.pos).copied().unwrap_or(0);
    self.pos += 1;
    v
  }

  /// uniform in 0..n, monotone in the raw value (never `%`, so shrinking the raw value
  /// shrinks the choice).
  pub fn choose(&mut self, n: usize) -> usize {
    if n <= 1 {
      // still consume nothing: a forced choice costs no tape
      return 0;
    }
    ((self.raw() as u64 * n as u64) >> 32) as usize
  }

  /// index chosen by integer weights; index 0 is reached by raw value 0.
  pub fn weighted(&mut self, weights: &[u32]) -> usize {
    let total: u64 = weights.iter().map(|w| *w as u64).sum();
    if total == 0 {
      return 0;
    }
    let mut x = (self.raw() as u64 * total) >> 32;
    for (i, w) in weights.iter().enumerate() {
      if x < *w as u64 {
        return i;
      }
      x -= *w as u64;
    }
    weights.len() - 1
  }

  /// true with probability num/den; raw 0 => false.
  pub fn bool(&mut self, num: u32, den: u32) -> bool {
    let x = (self.raw() as u64 * den as u64) >> 32;
    x >= (den - num.min(den)) as u64
  }

  /// inclusive range, lo reached by raw 0.
  pub fn int_in(&mut self, lo: i64, hi: i64) -> i64 {
    if hi <= lo {
      return lo;
    }
    let span = (hi - lo) as u64 + 1;
    lo + ((self.raw() as u128 * span as u128) >> 32) as i64
  }

  pub fn pick<'a, T>(&mut self, items: &'a [T]) -> &'a T {
    &items[self.choose(items.len())]
  }

  /// length in 0..=max, geometric-ish (small lengths likelier), 0 for raw 0.
  pub fn small_len(&mut self, max: usize) -> usize {
    let r = self.raw() as u64;
    // square the uniform variable: biases toward 0 while staying monotone
    let u = (r * r) >> 32;
    ((u * (max as u64 + 1)) >> 32) as usize
  }
}
