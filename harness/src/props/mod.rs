use crate::engine::Prop;

pub mod c17;

pub fn all() -> Vec<&'static dyn Prop> {
  vec![&c17::C17]
}

pub fn by_id(id: &str) -> Option<&'static dyn Prop> {
  all().into_iter().find(|p| p.id() == id)
}
