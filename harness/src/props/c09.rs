//! C09 – formatting is idempotent and keeps every comment.

use super::fmt_common::*;
use crate::engine::{Outcome, Params, Prop, Tape, Tier, fnv, panic_sig};
use crate::model::front;
use crate::model::toks::{Kind, Tok, tokenize};
use serde_json::{Value, json};
use std::collections::BTreeMap;

pub struct C09;

#[derive(Clone, Debug)]
struct CWord {
  kind: Kind,
  word: String,
  /// index of the comment token in the token list
  tok: usize,
}

fn kind_str(k: Kind) -> &'static str {
  match k {
    Kind::LineComment => "//",
    Kind::BlockComment => "/*",
    Kind::DocComment => "/**",
    _ => "?",
  }
}

/// (import-region words, rest words)
fn comment_words(toks: &[Tok]) -> (Vec<CWord>, Vec<CWord>) {
  let boundary = toks
    .iter()
    .position(|t| t.kind == Kind::Keyword && matches!(t.text.as_str(), "class" | "interface" | "private"))
    .unwrap_or(toks.len());
  // comments directly before the first toplevel keyword belong to the toplevel, but imports can
  // only move comments that precede an `import` keyword: the region ends after the last import's tokens
  let last_import = toks[..boundary].iter().rposition(|t| t.kind == Kind::Keyword && t.text == "import");
  // the import section ends with the last import statement: `import { ... } from a.b.c ;`
  let region_end = match last_import {
    None => 0,
    Some(l) => {
      let sig: Vec<usize> = (l..boundary).filter(|i| !toks[*i].is_comment()).collect();
      // sig[0] = import, then `{` ... `}` `from` id (`.` id)* `;`?
      let mut k = 1;
      while k < sig.len() && toks[sig[k]].text != "}" {
        k += 1;
      }
      k += 1; // from
      k += 1; // first id
      k += 1;
      while k + 1 < sig.len() && toks[sig[k]].text == "." {
        k += 2;
      }
      if k < sig.len() && toks[sig[k]].text == ";" {
        k += 1;
      }
      if k < sig.len() { sig[k] } else { sig.last().map(|x| x + 1).unwrap_or(boundary) }
    }
  };
  // trailing comments of the last import line up to the next token stay with the rest region
  let mut a = vec![];
  let mut b = vec![];
  for (i, t) in toks.iter().enumerate() {
    if !t.is_comment() {
      continue;
    }
    let target = if i < region_end { &mut a } else { &mut b };
    let mut any = false;
    for w in t.text.split_whitespace() {
      any = true;
      target.push(CWord { kind: t.kind, word: w.to_string(), tok: i });
    }
    if !any {
      target.push(CWord { kind: t.kind, word: "∅".into(), tok: i });
    }
  }
  (a, b)
}

fn neighbours(toks: &[Tok], i: usize) -> (String, String) {
  let prev = toks[..i].iter().rev().find(|t| !t.is_comment()).map(|t| t.class()).unwrap_or("BOF".into());
  let next = toks[i + 1..].iter().find(|t| !t.is_comment()).map(|t| t.class()).unwrap_or("EOF".into());
  (prev, next)
}

fn multiset(ws: &[CWord], with_kind: bool) -> BTreeMap<(String, String), i64> {
  let mut m = BTreeMap::new();
  for w in ws {
    *m.entry((if with_kind { kind_str(w.kind).to_string() } else { String::new() }, w.word.clone())).or_default() += 1;
  }
  m
}

/// Where the parser attached a comment: `<node kind>#<slot index>`, or None when no node of the tree holds it.
pub type Attachment = std::collections::HashMap<(String, String), String>;

pub fn attachments(p: &front::Parsed) -> Attachment {
  use samlang_ast::source::{CommentKind, CommentsNode};
  let mut m = Attachment::new();
  let nodes = crate::model::astwalk::walk_module(&p.heap, &p.module);
  let mut put = |r: samlang_ast::source::CommentReference, site: String| {
    if let CommentsNode::Comments(cs) = p.module.comment_store.get(r) {
      for c in cs {
        let k = match c.kind {
          CommentKind::LINE => "//",
          CommentKind::BLOCK => "/*",
          CommentKind::DOC => "/**",
        };
        m.entry((k.to_string(), c.text.as_str(&p.heap).to_string())).or_insert(site.clone());
      }
    }
  };
  for n in &nodes {
    for (i, r) in n.comments.iter().enumerate() {
      put(*r, format!("{}#{}", n.kind, i));
    }
  }
  put(p.module.trailing_comments, "module-trailing#0".to_string());
  m
}

pub fn compare_comments(t0: &str, t1: &str, att: &Attachment, out: &mut Outcome, labels: &mut Vec<String>) -> usize {
  let k0 = tokenize(t0);
  let k1 = tokenize(t1);
  let (a_imp, a_rest) = comment_words(&k0);
  let (b_imp, b_rest) = comment_words(&k1);
  // wrap artefact of the formatter (recorded finding): an empty `//` line directly after a line comment
  let is_artefact = |w: &CWord| w.word == "∅" && w.kind == Kind::LineComment && w.tok > 0 && k1[w.tok - 1].kind == Kind::LineComment;
  let artefacts = b_imp.iter().chain(b_rest.iter()).filter(|w| is_artefact(w)).count();
  let b_imp: Vec<CWord> = b_imp.into_iter().filter(|w| !is_artefact(w)).collect();
  let b_rest: Vec<CWord> = b_rest.into_iter().filter(|w| !is_artefact(w)).collect();
  if artefacts > 0 {
    out.fail(
      "comment-invented/empty-line-comment-after-wrapped-line-comment",
      format!("a wrapped line comment is followed by an empty `//` line that the input does not have\ninput:\n{}\noutput:\n{}", short(t0, 1200), short(t1, 1200)),
    );
  }
  let ncomments = k0.iter().filter(|t| t.is_comment()).count();
  for (i, t) in k0.iter().enumerate() {
    if t.is_comment() {
      let (p, n) = neighbours(&k0, i);
      labels.push(format!("slot:{} prev={} next={}", kind_str(t.kind), p, n));
    }
  }
  let seq = |v: &[CWord]| v.iter().map(|w| (kind_str(w.kind), w.word.clone())).collect::<Vec<_>>();
  if multiset(&a_imp, true) == multiset(&b_imp, true) && seq(&a_rest) == seq(&b_rest) {
    return ncomments;
  }
  let context = |t0: &str, tok: &Tok| -> String {
    let lines: Vec<&str> = t0.split('\n').collect();
    let lo = (tok.line as usize).saturating_sub(1);
    let hi = (tok.end_line as usize + 2).min(lines.len());
    lines[lo..hi].join("\n")
  };
  // B: global word list; import-region words first
  let nb_imp = b_imp.len();
  let mut b_all = b_imp.clone();
  b_all.extend(b_rest.iter().cloned());
  let mut claimed = vec![false; b_all.len()];
  // A: comments as units, in textual order
  let mut a_all = a_imp.clone();
  a_all.extend(a_rest.iter().cloned());
  let na_imp_words = a_imp.len();
  let mut units: Vec<(usize, Kind, Vec<String>, bool)> = vec![]; // (tok, kind, words, in import region)
  for (wi, w) in a_all.iter().enumerate() {
    if let Some(last) = units.last_mut()
      && last.0 == w.tok
    {
      last.2.push(w.word.clone());
    } else {
      units.push((w.tok, w.kind, vec![w.word.clone()], wi < na_imp_words));
    }
  }
  // identical comments in several places: a lost or moved one cannot be told apart from its twins, so
  // only the "nothing is duplicated or invented" direction is decided (word multiset of output within input)
  {
    let contains = |big: &Vec<String>, small: &Vec<String>| small.len() <= big.len() && big.windows(small.len().max(1)).any(|w| w == small.as_slice());
    let has_twins = (0..units.len()).any(|i| (0..units.len()).any(|j| i != j && contains(&units[j].2, &units[i].2)));
    if has_twins {
      labels.push("input:identical-comments(lost/reorder not decided)".into());
      let ma = multiset(&a_all, true);
      let mb = multiset(&b_all, true);
      for ((k, w), nb) in &mb {
        let na = ma.get(&(k.clone(), w.clone())).copied().unwrap_or(0);
        if *nb > na {
          out.fail(
            format!("comment-duplicated-or-invented/{k}/identical-comments"),
            format!("comment word {w:?} ({k}) occurs {na} times in the input and {nb} times in the formatter output\ninput:\n{}\noutput:\n{}", short(t0, 1200), short(t1, 1200)),
          );
          break;
        }
      }
      return ncomments;
    }
  }
  let find = |kind: Kind, words: &[String], claimed: &[bool]| -> Option<Vec<usize>> {
    let idx: Vec<usize> = (0..b_all.len()).filter(|i| b_all[*i].kind == kind).collect();
    if words.len() > idx.len() {
      return None;
    }
    for s in 0..=(idx.len() - words.len()) {
      if (0..words.len()).all(|j| !claimed[idx[s + j]] && b_all[idx[s + j]].word == words[j]) {
        return Some(idx[s..s + words.len()].to_vec());
      }
    }
    None
  };
  let site_of = |t: &Tok, next: &str| -> String {
    match att.get(&(kind_str(t.kind).to_string(), t.text.clone())) {
      Some(s) => format!("attached-to={s}"),
      None => format!("dropped-by-parser/next={next}"),
    }
  };
  let mut last_pos: Option<usize> = None;
  for (tok, kind, words, in_imp) in &units {
    let t = &k0[*tok];
    let (_p, n) = neighbours(&k0, *tok);
    match find(*kind, words, &claimed) {
      Some(pos) => {
        for p in &pos {
          claimed[*p] = true;
        }
        let start = pos[0];
        if *in_imp {
          if start >= nb_imp {
            out.fail(format!("comment-moved-across-import-boundary/{}", site_of(t, &n)), format!("comment {:?} moved out of the import section\ninput:\n{}\noutput:\n{}", t.text, short(t0, 1200), short(t1, 1200)));
          }
        } else {
          if start < nb_imp {
            out.fail(format!("comment-moved-across-import-boundary/{}", site_of(t, &n)), format!("comment {:?} moved into the import section\ninput:\n{}\noutput:\n{}", t.text, short(t0, 1200), short(t1, 1200)));
          } else if let Some(lp) = last_pos
            && start < lp
          {
            out.fail(
              format!("comment-reordered/{}", site_of(t, &n)),
              format!("comment {:?} now comes before a comment that preceded it in the input\nnear:\n{}\ninput:\n{}\noutput:\n{}", t.text, context(t0, t), short(t0, 1200), short(t1, 1200)),
            );
          }
          if start >= nb_imp {
            last_pos = Some(last_pos.map(|lp| lp.max(start)).unwrap_or(start));
          }
        }
      }
      None => {
        // kind change?
        let mut changed = None;
        for k in [Kind::LineComment, Kind::BlockComment, Kind::DocComment] {
          if k != *kind
            && let Some(pos) = find(k, words, &claimed)
          {
            for p in &pos {
              claimed[*p] = true;
            }
            changed = Some(k);
            break;
          }
        }
        match changed {
          Some(k) => out.fail(
            format!("comment-kind-changed/{}->{}/{}", kind_str(*kind), kind_str(k), site_of(t, &n)),
            format!("comment {:?} changed kind\nnear:\n{}\noutput:\n{}", t.text, context(t0, t), short(t1, 1200)),
          ),
          None => out.fail(
            format!("comment-lost/{}", site_of(t, &n)),
            format!("comment {:?} ({}) is not in the formatter output\nnear:\n{}\ninput:\n{}\noutput:\n{}", t.text, kind_str(*kind), context(t0, t), short(t0, 1200), short(t1, 1200)),
          ),
        }
      }
    }
  }
  let remaining: Vec<&CWord> = (0..b_all.len()).filter(|i| !claimed[*i]).map(|i| &b_all[i]).collect();
  if remaining.is_empty() {
  } else if let Some(w) = remaining.first() {
    let (_p, n) = neighbours(&k1, w.tok);
    out.fail(
      format!("comment-duplicated-or-invented/{}/next={}", kind_str(w.kind), n),
      format!("formatter output contains comment words that the input does not: {:?}\ninput:\n{}\noutput:\n{}", remaining.iter().map(|w| &w.word).collect::<Vec<_>>(), short(t0, 1200), short(t1, 1200)),
    );
  }
  ncomments
}

fn first_token_diff(t1: &str, t2: &str) -> (String, String) {
  let a = tokenize(t1);
  let b = tokenize(t2);
  let n = a.len().min(b.len());
  for i in 0..n {
    if a[i].kind != b[i].kind || a[i].text != b[i].text {
      if b[i].kind == Kind::LineComment && b[i].text.is_empty() && i > 0 && b[i - 1].kind == Kind::LineComment {
        return ("empty-line-comment-after-wrapped-line-comment".into(), format!("token #{i}: second formatting inserts an empty `//` line after a wrapped line comment"));
      }
      let prev = if i > 0 { a[i - 1].class() } else { "BOF".into() };
      return (format!("tokens/prev={}/first={}/second={}", prev, a[i].class(), b[i].class()), format!("token #{i}: {:?} vs {:?}", a[i].text, b[i].text));
    }
  }
  if a.len() != b.len() {
    let longer = if a.len() > b.len() { &a } else { &b };
    return (format!("tokens/count/{}", longer[n].class()), format!("token count {} vs {}", a.len(), b.len()));
  }
  // layout only
  for i in 0..n {
    if (a[i].line, a[i].col) != (b[i].line, b[i].col) {
      let prev = if i > 0 { a[i - 1].class() } else { "BOF".into() };
      return (format!("layout/prev={}/next={}", prev, a[i].class()), format!("token #{i} {:?} moves from {}:{} to {}:{}", a[i].text, a[i].line + 1, a[i].col + 1, b[i].line + 1, b[i].col + 1));
    }
  }
  ("layout/trailing-whitespace".into(), String::new())
}

impl Prop for C09 {
  fn id(&self) -> &'static str {
    "C09"
  }
  fn rule(&self) -> String {
    "syntactically valid modules (G5) with line/block/doc comments placed in the trivia slot before every token and at EOF (short, empty, long wrapping, multi-line, containing * and //), comment-heavy and sparse variants, x widths, plus every tests/*.sam and std/*.sam; oracle: (1) print(parse(t1)) == t1 for t1 = print(parse(t0)); (2) the sequence of (kind, word) over all comments of t0 (read by the harness's own tokenizer) equals that of t1, comments before the first class/interface compared as a multiset when the file has imports; non-trivial = >=1 comment in a non-leading position (previous token is not BOF); distinct = hash of the input text".into()
  }
  fn assumptions(&self) -> Vec<String> {
    vec![
      "comment text is compared word by word (whitespace inside a comment is not part of the comparison), because the formatter documents re-wrapping of long comments".into(),
      "inputs with syntax errors, and inputs whose formatted output does not re-parse (C08's domain), are discarded and counted".into(),
    ]
  }
  fn params(&self, tier: Tier) -> Params {
    match tier {
      Tier::Quick => Params { cases: 40_000, tape_len: 1500, workers: 14, stack_mb: 8, worker_timeout_s: 900, shrink_iters: 4000 },
      Tier::Thorough => Params { cases: 800_000, tape_len: 5000, workers: 16, stack_mb: 8, worker_timeout_s: 4 * 3600, shrink_iters: 4000 },
    }
  }
  fn generate(&self, t: &mut Tape, tier: Tier) -> Value {
    gen_text(t, tier, Profile::Comments)
  }
  fn fixed_cases(&self, tier: Tier) -> Vec<Value> {
    repo_fixed_cases(if tier == Tier::Quick { &WIDTHS[..2] } else { WIDTHS })
  }
  fn check(&self, art: &Value) -> Outcome {
    let mut out = Outcome::default();
    let text = art["text"].as_str().unwrap_or("");
    let width = art["width"].as_u64().unwrap_or(100) as usize;
    out.key = fnv(text.as_bytes());
    let p0 = match front::parse(text, &["Test"]) {
      Ok(p) => p,
      Err(_) => return Outcome::discarded("parser-panics-on-input(C05)"),
    };
    if !p0.syntax_errors.is_empty() {
      return Outcome::discarded("input-has-syntax-errors");
    }
    let t1 = match front::print(&p0, width) {
      Ok(t) => t,
      Err(e) => {
        out.fail(panic_sig("print", &e), format!("printer panicked: {}\ninput:\n{}", e.1, short(text, 2000)));
        return out;
      }
    };
    let mut labels = vec![];
    let att = attachments(&p0);
    let n = compare_comments(text, &t1, &att, &mut out, &mut labels);
    out.nontrivial = labels.iter().any(|l| !l.contains("prev=BOF"));
    labels.sort();
    labels.dedup();
    out.labels = labels;
    out.label(format!("comments:{}", if n == 0 { "0" } else if n < 4 { "1-3" } else if n < 10 { "4-9" } else { ">=10" }));
    out.sample = Some(json!({"text": short(text, 600), "width": width}));
    // idempotence
    match front::parse(&t1, &["Test"]) {
      Err(_) => out.label("idempotence:skipped(output-reparse-panics)"),
      Ok(p1) => {
        if !p1.syntax_errors.is_empty() {
          out.label("idempotence:skipped(output-does-not-reparse,C08)");
        } else {
          match front::print(&p1, width) {
            Err(e) => out.fail(panic_sig("print-twice", &e), format!("printer panicked on its own output: {}\n{}", e.1, short(&t1, 2000))),
            Ok(t2) => {
              if t2 != t1 {
                let (sig, d) = first_token_diff(&t1, &t2);
                let sig = if n > 0 && sig != "empty-line-comment-after-wrapped-line-comment" { "input-has-comments".to_string() } else { sig };
                out.fail(format!("not-idempotent/{sig}"), format!("{d}\nformatted once:\n{}\nformatted twice:\n{}", short(&t1, 1500), short(&t2, 1500)));
              }
            }
          }
        }
      }
    }
    out
  }
}
