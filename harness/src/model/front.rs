//! Thin wrappers around the public front-end APIs with panic containment.

use crate::engine::guard;
use samlang_ast::Location;
use samlang_ast::source::Module;
use samlang_errors::{ErrorDetail, ErrorSet};
use samlang_heap::{Heap, ModuleReference};

pub struct Parsed {
  pub heap: Heap,
  pub mr: ModuleReference,
  pub module: Module<()>,
  pub syntax_errors: Vec<(Location, String)>,
}

pub type Panic = (String, String);

pub fn parse_in(heap: &mut Heap, mr: ModuleReference, text: &str) -> Result<(Module<()>, Vec<(Location, String)>), Panic> {
  let mut es = ErrorSet::new();
  let module = guard(|| samlang_parser::parse_source_module_from_text(text, mr, heap, &mut es))?;
  let mut errs = vec![];
  for e in es.errors() {
    if let ErrorDetail::InvalidSyntax(s) = &e.detail {
      errs.push((e.location, s.clone()));
    }
  }
  Ok((module, errs))
}

pub fn parse(text: &str, name: &[&str]) -> Result<Parsed, Panic> {
  let mut heap = Heap::new();
  let mr = heap.alloc_module_reference_from_string_vec(name.iter().map(|s| s.to_string()).collect());
  let (module, syntax_errors) = parse_in(&mut heap, mr, text)?;
  Ok(Parsed { heap, mr, module, syntax_errors })
}

pub fn print(p: &Parsed, width: usize) -> Result<String, Panic> {
  guard(|| samlang_printer::pretty_print_source_module(&p.heap, width, &p.module))
}

/// `Expected: X, actual: Y.`-style messages with the concrete token replaced by its class.
pub fn syntax_error_class(msg: &str) -> String {
  let mut out = String::new();
  for (i, part) in msg.split("actual: ").enumerate() {
    if i == 0 {
      out.push_str(part);
      continue;
    }
    out.push_str("actual: ");
    let tok = part.trim_end_matches('.');
    let toks = super::toks::tokenize(tok);
    match toks.first() {
      Some(t) if toks.len() == 1 => out.push_str(&t.class()),
      _ => out.push_str(&crate::engine::msg_class(tok)),
    }
  }
  // "Expected identifier, but get x"
  if let Some(idx) = out.find("but get ") {
    let tail = out[idx + 8..].to_string();
    let toks = super::toks::tokenize(&tail);
    if toks.len() == 1 {
      out.truncate(idx + 8);
      out.push_str(&toks[0].class());
    }
  }
  if let Some(idx) = out.find("interfaces: ") {
    let tail = out[idx + 12..].to_string();
    let toks = super::toks::tokenize(&tail);
    if toks.len() == 1 {
      out.truncate(idx + 12);
      out.push_str(&toks[0].class());
    }
  }
  out.chars().take(90).collect()
}

/// A multi-module program: parsed user modules + the standard library, in one heap.
pub struct Program {
  pub heap: Heap,
  pub modules: std::collections::HashMap<ModuleReference, Module<()>>,
  pub texts: std::collections::HashMap<ModuleReference, String>,
  pub user: Vec<ModuleReference>,
  pub syntax_errors: usize,
}

pub fn load_program(mods: &[(Vec<String>, String)]) -> Result<Program, Panic> {
  let mut heap = Heap::new();
  let mut modules = std::collections::HashMap::new();
  let mut texts = std::collections::HashMap::new();
  let mut user = vec![];
  let mut syntax_errors = 0;
  for (name, text) in mods {
    let mr = heap.alloc_module_reference_from_string_vec(name.clone());
    let (m, errs) = parse_in(&mut heap, mr, text)?;
    syntax_errors += errs.len();
    modules.insert(mr, m);
    texts.insert(mr, text.clone());
    user.push(mr);
  }
  let user_texts: Vec<&str> = mods.iter().map(|(_, t)| t.as_str()).collect();
  for (name, text) in needed_std(&mut heap, &user_texts) {
    let mr = heap.alloc_module_reference_from_string_vec(name);
    if modules.contains_key(&mr) {
      continue;
    }
    let (m, _) = parse_in(&mut heap, mr, &text)?;
    modules.insert(mr, m);
    texts.insert(mr, text);
  }
  Ok(Program { heap, modules, texts, user, syntax_errors })
}

/// the repository's tests/*.sam as modules `tests.<Name>`
pub fn repo_test_modules() -> Vec<(Vec<String>, String)> {
  let dir = crate::engine::repo_root().join("tests");
  let mut out = vec![];
  let mut files: Vec<_> = std::fs::read_dir(&dir).map(|r| r.filter_map(|e| e.ok()).map(|e| e.path()).collect()).unwrap_or_default();
  files.sort();
  for f in files {
    if f.extension().and_then(|e| e.to_str()) == Some("sam")
      && let Ok(text) = std::fs::read_to_string(&f)
    {
      out.push((vec!["tests".to_string(), f.file_stem().unwrap().to_string_lossy().to_string()], text));
    }
  }
  out
}

pub fn std_extra_sources() -> Vec<(Vec<String>, String)> {
  let dir = crate::engine::repo_root().join("std");
  let mut out = vec![];
  let mut files: Vec<_> = std::fs::read_dir(&dir).map(|r| r.filter_map(|e| e.ok()).map(|e| e.path()).collect()).unwrap_or_default();
  files.sort();
  for f in files {
    if f.extension().and_then(|e| e.to_str()) == Some("sam")
      && let Ok(text) = std::fs::read_to_string(&f)
    {
      out.push((vec!["std".to_string(), f.file_stem().unwrap().to_string_lossy().to_string()], text));
    }
  }
  out
}

/// std modules (built into the parser crate or present in /repo/std) that the given texts import,
/// transitively. Compiling only what is reachable keeps a case at milliseconds.
pub fn needed_std(heap: &mut Heap, user_texts: &[&str]) -> Vec<(Vec<String>, String)> {
  let mut all: std::collections::HashMap<String, String> = std::collections::HashMap::new();
  for (mr, text) in samlang_parser::builtin_std_raw_sources(heap) {
    all.insert(mr.pretty_print(heap), text);
  }
  for (name, text) in std_extra_sources() {
    all.entry(name.join(".")).or_insert(text);
  }
  // tuples are needed by every tuple expression
  let mut need: Vec<String> = vec!["std.tuples".to_string()];
  let mut queue: Vec<String> = user_texts.iter().map(|s| s.to_string()).collect();
  while let Some(text) = queue.pop() {
    for part in text.split("from ").skip(1) {
      let path: String = part.chars().take_while(|c| c.is_ascii_alphanumeric() || *c == '.' || *c == ' ').collect::<String>().replace(' ', "");
      let path = path.trim_end_matches('.').to_string();
      if path.starts_with("std.") && !need.contains(&path) && all.contains_key(&path) {
        need.push(path.clone());
        queue.push(all[&path].clone());
      }
    }
  }
  if let Some(t) = all.get("std.tuples") {
    queue.push(t.clone());
  }
  need.sort();
  need.dedup();
  need.into_iter().filter_map(|n| all.get(&n).map(|t| (n.split('.').map(|x| x.to_string()).collect(), t.clone()))).collect()
}
