//! C17 – the interning heap is injective, stable and never reclaims a live string.
//! Model-based: operation sequences over the public `Heap` API against a slot-table model
//! derived from the documented contract (doc comments in samlang-heap/src/lib.rs).

use crate::engine::{Outcome, Params, Prop, Tape, Tier, fnv, guard, panic_sig};
use samlang_heap::{Heap, ModuleReference, PStr};
use serde_json::{Value, json};
use std::collections::{BTreeMap, HashMap, HashSet};
use std::hash::{Hash, Hasher};

pub struct C17;

/// String pool: inline (<=15 bytes) and heap strings, boundary lengths, multi-byte UTF-8
/// ending exactly at byte 15, shared prefixes.
pub const POOL: &[&str] = &[
  "",
  "a",
  "ab",
  "fourteen_bytes",
  "fifteen_bytes_x",
  "sixteen_bytes_xy",
  "seventeen_bytes_x",
  "a_rather_long_identifier_name_0",
  "a_rather_long_identifier_name_1",
  "a_rather_long_identifier_name_2",
  "ééééééé",
  "éééééééa",
  "éééééééé",
  "aaaaaaaaaaaaaé",
  "aaaaaaaaaaaaaaé",
  "日本語日本",
  "日本語日本語",
  "_t3",
  "_t4",
  "std",
  "tuples",
  "DUMMY",
  "module_part_that_is_long_A",
  "module_part_that_is_long_B",
  "xxxxxxxxxxxxxxxxxxxxxxxxxxxxxxxxxxxxxxxxxxxxxxxxxxxxxxxxxxxxxxxxxxxxxxxxxxxxxxxxxxxxxxxxxxxxxxxxxxxxxxxxxxxxxxxx",
];

#[derive(Clone, Debug, PartialEq)]
enum SlotState {
  Permanent,
  Temp { marked: bool },
  Freed,
  Filler, // alloc_temp_str / sync_temp_counter padding
}

struct Slot {
  text: String,
  state: SlotState,
}

struct Handle {
  p: PStr,
  text: String,
  /// model slot (None = inline)
  slot: Option<usize>,
}

struct Model {
  slots: Vec<Slot>,
  /// text -> slot id for non-freed long strings
  intern: HashMap<String, usize>,
  cursor: usize,
  unmarked: HashSet<Vec<String>>,
  modrefs: HashMap<Vec<String>, ModuleReference>,
  frees: u64,
  wraps: u64,
}

impl Model {
  fn new() -> Model {
    Model { slots: vec![], intern: HashMap::new(), cursor: 0, unmarked: HashSet::new(), modrefs: HashMap::new(), frees: 0, wraps: 0 }
  }

  /// model of any allocation of `text`; returns the slot (None if inline)
  fn alloc(&mut self, text: &str, permanent: bool) -> Option<usize> {
    if text.len() <= 15 {
      return None;
    }
    if let Some(id) = self.intern.get(text).copied() {
      if permanent {
        self.slots[id].state = SlotState::Permanent;
      }
      return Some(id);
    }
    let id = self.slots.len();
    self.slots.push(Slot { text: text.to_string(), state: if permanent { SlotState::Permanent } else { SlotState::Temp { marked: false } } });
    self.intern.insert(text.to_string(), id);
    Some(id)
  }

  fn live(&self, h: &Handle) -> bool {
    match h.slot {
      None => true,
      Some(s) => !matches!(self.slots[s].state, SlotState::Freed),
    }
  }

  fn sweep(&mut self, w: usize) -> u64 {
    if !self.unmarked.is_empty() {
      return 0;
    }
    let start = self.cursor;
    let mut end = self.cursor.saturating_add(w);
    let max = self.slots.len();
    if end >= max {
      self.cursor = 0;
      end = max;
      self.wraps += 1;
    } else {
      self.cursor = end;
    }
    let mut freed = 0;
    for i in start..end {
      let slot = &mut self.slots[i];
      match slot.state {
        SlotState::Temp { marked: true } => slot.state = SlotState::Temp { marked: false },
        SlotState::Temp { marked: false } => {
          slot.state = SlotState::Freed;
          self.intern.remove(&slot.text);
          freed += 1;
        }
        _ => {}
      }
    }
    self.frees += freed;
    freed
  }

  fn freed_count(&self) -> usize {
    self.slots.iter().filter(|s| s.state == SlotState::Freed).count()
  }
}

fn std_hash(p: &PStr) -> u64 {
  let mut h = std::collections::hash_map::DefaultHasher::new();
  p.hash(&mut h);
  h.finish()
}

fn parse_unused(stat: &str) -> Option<usize> {
  stat.rsplit("Total unused: ").next()?.trim().parse().ok()
}

fn static_str(s: &str) -> &'static str {
  // pool strings are 'static already; anything else (replay files) is leaked, a few bytes
  for p in POOL {
    if *p == s {
      return p;
    }
  }
  Box::leak(s.to_string().into_boxed_str())
}

impl C17 {
  fn gen_op(t: &mut Tape, n_handles_hint: usize) -> Value {
    let h = |t: &mut Tape| t.choose(n_handles_hint.max(1)) as u64;
    let parts = |t: &mut Tape| -> Vec<String> {
      let n = 1 + t.choose(3);
      (0..n).map(|_| POOL[t.choose(POOL.len())].to_string()).collect()
    };
    match t.weighted(&[30, 8, 14, 6, 6, 10, 12, 6, 4, 4, 4, 4, 3, 3, 3, 2]) {
      0 => json!(["alloc", POOL[t.choose(POOL.len())]]),
      1 => json!(["read_all"]),
      2 => json!(["mark", h(t)]),
      3 => json!(["mark_all"]),
      4 => json!(["static", POOL[t.choose(POOL.len())]]),
      5 => {
        let w = match t.choose(7) {
          0 => 0,
          1 => 1,
          2 => 2,
          3 => -1, // len - 1
          4 => -2, // len
          5 => -3, // len + 7
          _ => 10000,
        };
        json!(["sweep", w])
      }
      6 => json!(["cmp", h(t), h(t)]),
      7 => json!(["modref", (0..1 + t.choose(3)).map(|_| h(t)).collect::<Vec<_>>()]),
      8 => json!(["modref_str", parts(t)]),
      9 => json!(["temp"]),
      10 => json!(["add_unmarked", t.choose(8) as u64]),
      11 => json!(["pop_unmarked"]),
      12 => json!(["lookup_modref", parts(t)]),
      13 => json!(["mark_some", t.raw()]),
      14 => json!(["counter", 1 + t.choose(4) as u64]),
      _ => json!(["alloc_fresh", t.choose(1000) as u64]),
    }
  }
}

impl Prop for C17 {
  fn id(&self) -> &'static str {
    "C17"
  }
  fn rule(&self) -> String {
    "operation sequences (alloc inline/long/static/temp, module-reference creation from handles and from strings, add/pop unmarked module, mark, sweep with work units 0/1/2/len-1/len/len+7/10^4, reads, comparisons, hashes) over the public Heap API, generated from a choice tape and compared after every step with a slot-table model of the documented contract; non-trivial = the model freed >=1 string in some sweep AND a later allocation happened AND the sweep cursor wrapped >=1 time; distinct = hash of the op list".into()
  }
  fn assumptions(&self) -> Vec<String> {
    vec![
      "the model never reads, marks or passes a handle it considers reclaimed (that would be the caller violating the API precondition)".into(),
      "ordering between two different strings is unspecified (heap strings order by allocation id); only cmp==Equal <=> equal text, antisymmetry and hash agreement are checked".into(),
      "leaks (a reclaimable string that is kept) are not violations of the stated property; only count(real reclaimed) <= count(model-reclaimable) is checked via stat()".into(),
    ]
  }
  fn params(&self, tier: Tier) -> Params {
    match tier {
      Tier::Quick => Params { cases: 300_000, tape_len: 700, workers: 14, stack_mb: 8, worker_timeout_s: 600, shrink_iters: 4000 },
      Tier::Thorough => Params { cases: 1_000_000, tape_len: 6000, workers: 16, stack_mb: 8, worker_timeout_s: 3 * 3600, shrink_iters: 4000 },
    }
  }

  fn generate(&self, t: &mut Tape, tier: Tier) -> Value {
    let max = if tier == Tier::Quick { 200 } else { 1500 };
    let n = 1 + t.small_len(max);
    let mut ops = vec![];
    let mut allocs = 0usize;
    for _ in 0..n {
      let op = Self::gen_op(t, allocs.max(1));
      let name = op[0].as_str().unwrap();
      if name.starts_with("alloc") || name == "static" || name == "temp" {
        allocs += 1;
      }
      ops.push(op);
      if t.exhausted() {
        break;
      }
    }
    json!({"ops": ops})
  }

  fn check(&self, art: &Value) -> Outcome {
    let mut out = Outcome::default();
    let ops = art["ops"].as_array().cloned().unwrap_or_default();
    out.key = fnv(art["ops"].to_string().as_bytes());
    let mut heap = Heap::new();
    let mut model = Model::new();
    // Heap::new() allocates root, DUMMY and std.tuples – all inline parts
    model.modrefs.insert(vec![], ModuleReference::ROOT);
    model.modrefs.insert(vec!["DUMMY".into()], ModuleReference::DUMMY);
    model.modrefs.insert(vec!["std".into(), "tuples".into()], ModuleReference::STD_TUPLES);
    let mut handles: Vec<Handle> = vec![];
    let mut modref_list: Vec<(ModuleReference, Vec<String>)> = vec![];
    let mut counts: BTreeMap<&'static str, u64> = BTreeMap::new();
    let mut freed_then_alloc = false;
    let mut realloc_of_freed = 0u64;
    let mut promotions = 0u64;
    let mut freed_texts: HashSet<String> = HashSet::new();
    let mut counter: Option<samlang_heap::TempPStrCounter> = None;

    macro_rules! fail {
      ($step:expr, $sig:expr, $($arg:tt)*) => {{
        out.fail($sig, format!("step {}: {} -- {}", $step, ops[$step], format!($($arg)*)));
        return finish(out, art, &model, &counts, freed_then_alloc, realloc_of_freed, promotions);
      }};
    }

    for (step, op) in ops.iter().enumerate() {
      let name = op[0].as_str().unwrap_or("");
      let live_idx: Vec<usize> = (0..handles.len()).filter(|i| model.live(&handles[*i])).collect();
      let pick_live = |raw: u64| -> Option<usize> {
        if live_idx.is_empty() { None } else { Some(live_idx[(raw as usize) % live_idx.len()]) }
      };
      let res: Result<(), (String, String)> = match name {
        "alloc" | "alloc_fresh" | "static" => {
          let text: String = if name == "alloc_fresh" {
            format!("fresh_long_string_number_{}", op[1].as_u64().unwrap_or(0))
          } else {
            op[1].as_str().unwrap_or("").to_string()
          };
          *counts.entry(if name == "static" { "static" } else if text.len() <= 15 { "alloc_inline" } else { "alloc_long" }).or_default() += 1;
          let was_freed = freed_texts.contains(&text) && !model.intern.contains_key(&text);
          let was_temp = model.intern.get(&text).map(|s| matches!(model.slots[*s].state, SlotState::Temp { .. })).unwrap_or(false);
          let r = guard(|| if name == "static" { heap.alloc_str_for_test(static_str(&text)) } else { heap.alloc_string(text.clone()) });
          match r {
            Ok(p) => {
              if model.frees > 0 {
                freed_then_alloc = true;
              }
              if was_freed {
                realloc_of_freed += 1;
              }
              if name == "static" && was_temp {
                promotions += 1;
              }
              let slot = model.alloc(&text, name == "static");
              handles.push(Handle { p, text, slot });
              Ok(())
            }
            Err(e) => Err(e),
          }
        }
        "temp" => {
          *counts.entry("temp").or_default() += 1;
          match guard(|| heap.alloc_temp_str()) {
            Ok(p) => {
              let id = model.slots.len();
              model.slots.push(Slot { text: String::new(), state: SlotState::Filler });
              handles.push(Handle { p, text: format!("_t{id}"), slot: None });
              Ok(())
            }
            Err(e) => Err(e),
          }
        }
        "counter" => {
          *counts.entry("temp_counter").or_default() += 1;
          let k = op[1].as_u64().unwrap_or(1);
          guard(|| {
            let c = heap.create_temp_counter();
            let start = model.slots.len();
            for j in 0..k {
              let p = c.alloc_temp_str();
              handles.push(Handle { p, text: format!("_t{}", start as u64 + j), slot: None });
            }
            heap.sync_temp_counter(&c);
            for _ in 0..k {
              model.slots.push(Slot { text: String::new(), state: SlotState::Filler });
            }
            counter = Some(c);
          })
        }
        "mark" => {
          *counts.entry("mark").or_default() += 1;
          if let Some(i) = pick_live(op[1].as_u64().unwrap_or(0)) {
            let p = handles[i].p;
            if let Some(s) = handles[i].slot
              && let SlotState::Temp { marked } = &mut model.slots[s].state
            {
              *marked = true;
            }
            guard(|| heap.mark(p))
          } else {
            Ok(())
          }
        }
        "mark_all" | "mark_some" => {
          *counts.entry("mark_all").or_default() += 1;
          let mask = if name == "mark_some" { op[1].as_u64().unwrap_or(0) } else { u64::MAX };
          let mut r = Ok(());
          for (k, i) in live_idx.iter().enumerate() {
            if mask >> (k % 32) & 1 == 0 {
              continue;
            }
            let p = handles[*i].p;
            if let Some(s) = handles[*i].slot
              && let SlotState::Temp { marked } = &mut model.slots[s].state
            {
              *marked = true;
            }
            if let Err(e) = guard(|| heap.mark(p)) {
              r = Err(e);
              break;
            }
          }
          r
        }
        "sweep" => {
          let w = match op[1].as_i64().unwrap_or(0) {
            -1 => model.slots.len().saturating_sub(1),
            -2 => model.slots.len(),
            -3 => model.slots.len() + 7,
            x => x.max(0) as usize,
          };
          let freed = model.sweep(w);
          if freed > 0 {
            *counts.entry("sweep_freeing").or_default() += 1;
            for h in &handles {
              if !model.live(h) {
                freed_texts.insert(h.text.clone());
              }
            }
          } else {
            *counts.entry(if model.unmarked.is_empty() { "sweep_nofree" } else { "sweep_blocked" }).or_default() += 1;
          }
          guard(|| heap.sweep(w))
        }
        "modref" => {
          *counts.entry("modref_from_handles").or_default() += 1;
          let idxs: Vec<usize> = op[1].as_array().cloned().unwrap_or_default().iter().filter_map(|x| pick_live(x.as_u64().unwrap_or(0))).collect();
          if idxs.is_empty() {
            Ok(())
          } else {
            let parts: Vec<PStr> = idxs.iter().map(|i| handles[*i].p).collect();
            let texts: Vec<String> = idxs.iter().map(|i| handles[*i].text.clone()).collect();
            for i in &idxs {
              if let Some(s) = handles[*i].slot {
                if matches!(model.slots[s].state, SlotState::Temp { .. }) {
                  promotions += 1;
                }
                model.slots[s].state = SlotState::Permanent;
              }
            }
            match guard(|| heap.alloc_module_reference(parts)) {
              Ok(mr) => {
                if let Some(prev) = model.modrefs.get(&texts) {
                  if *prev != mr {
                    fail!(step, "modref-not-interned/handles", "module reference for {:?} differs from the earlier one", texts);
                  }
                } else {
                  if model.modrefs.values().any(|v| *v == mr) {
                    fail!(step, "modref-collision/handles", "new module reference {:?} equals an existing different one", texts);
                  }
                  model.modrefs.insert(texts.clone(), mr);
                }
                modref_list.push((mr, texts));
                Ok(())
              }
              Err(e) => Err(e),
            }
          }
        }
        "modref_str" => {
          *counts.entry("modref_from_strings").or_default() += 1;
          let texts: Vec<String> = op[1].as_array().cloned().unwrap_or_default().iter().map(|x| x.as_str().unwrap_or("").to_string()).collect();
          for t in &texts {
            if model.intern.get(t).map(|s| matches!(model.slots[*s].state, SlotState::Temp { .. })).unwrap_or(false) {
              promotions += 1;
            }
          }
          match guard(|| heap.alloc_module_reference_from_string_vec(texts.clone())) {
            Ok(mr) => {
              for t in &texts {
                let slot = model.alloc(t, true);
                // also keep a handle so that the parts are read back later
                let p = guard(|| heap.alloc_string(t.clone()));
                match p {
                  Ok(p) => handles.push(Handle { p, text: t.clone(), slot }),
                  Err(e) => {
                    out.fail(panic_sig("alloc_string", &e), format!("step {step}: {op} -- {}", e.1));
                    return finish(out, art, &model, &counts, freed_then_alloc, realloc_of_freed, promotions);
                  }
                }
              }
              if let Some(prev) = model.modrefs.get(&texts) {
                if *prev != mr {
                  fail!(step, "modref-not-interned/strings", "module reference for {:?} differs from the earlier one", texts);
                }
              } else {
                if model.modrefs.values().any(|v| *v == mr) {
                  fail!(step, "modref-collision/strings", "new module reference {:?} equals an existing different one", texts);
                }
                model.modrefs.insert(texts.clone(), mr);
              }
              modref_list.push((mr, texts));
              Ok(())
            }
            Err(e) => Err(e),
          }
        }
        "lookup_modref" => {
          *counts.entry("lookup_modref").or_default() += 1;
          let texts: Vec<String> = op[1].as_array().cloned().unwrap_or_default().iter().map(|x| x.as_str().unwrap_or("").to_string()).collect();
          match guard(|| heap.get_allocated_module_reference_opt(texts.clone())) {
            Ok(got) => {
              let want = model.modrefs.get(&texts).copied();
              if got != want {
                fail!(step, "modref-lookup-mismatch", "get_allocated_module_reference_opt({:?}) = {:?}, model says {:?}", texts, got, want);
              }
              Ok(())
            }
            Err(e) => Err(e),
          }
        }
        "add_unmarked" => {
          *counts.entry("add_unmarked").or_default() += 1;
          if modref_list.is_empty() {
            Ok(())
          } else {
            let (mr, texts) = modref_list[(op[1].as_u64().unwrap_or(0) as usize) % modref_list.len()].clone();
            model.unmarked.insert(texts);
            guard(|| heap.add_unmarked_module_reference(mr))
          }
        }
        "pop_unmarked" => {
          *counts.entry("pop_unmarked").or_default() += 1;
          match guard(|| heap.pop_unmarked_module_reference()) {
            Ok(got) => {
              match got {
                None => {
                  if !model.unmarked.is_empty() {
                    fail!(step, "unmarked-set/pop-none", "pop returned None but {} modules are pending", model.unmarked.len());
                  }
                }
                Some(mr) => {
                  let texts: Vec<String> = mr.get_parts(&heap).iter().map(|p| p.as_str(&heap).to_string()).collect();
                  if !model.unmarked.remove(&texts) {
                    fail!(step, "unmarked-set/pop-unknown", "pop returned {:?} which is not pending", texts);
                  }
                }
              }
              Ok(())
            }
            Err(e) => Err(e),
          }
        }
        "cmp" => {
          *counts.entry("cmp").or_default() += 1;
          if let (Some(a), Some(b)) = (pick_live(op[1].as_u64().unwrap_or(0)), pick_live(op[2].as_u64().unwrap_or(0))) {
            let (ha, hb) = (&handles[a], &handles[b]);
            let eq_text = ha.text == hb.text;
            let eq_h = ha.p == hb.p;
            if eq_text != eq_h {
              fail!(step, if eq_text { "injectivity/equal-text-unequal-handles" } else { "injectivity/unequal-text-equal-handles" }, "{:?} vs {:?}: handles equal = {}", ha.text, hb.text, eq_h);
            }
            let c1 = ha.p.cmp(&hb.p);
            let c2 = hb.p.cmp(&ha.p);
            if (c1 == std::cmp::Ordering::Equal) != eq_text || c1 != c2.reverse() {
              fail!(step, "ordering-inconsistent", "{:?} vs {:?}: cmp={:?} reverse cmp={:?}", ha.text, hb.text, c1, c2);
            }
            if eq_text && std_hash(&ha.p) != std_hash(&hb.p) {
              fail!(step, "hash-inconsistent", "{:?}: equal handles hash differently", ha.text);
            }
          }
          Ok(())
        }
        "read_all" => {
          *counts.entry("read_all").or_default() += 1;
          Ok(())
        }
        _ => Ok(()),
      };
      if let Err(e) = res {
        out.fail(panic_sig(name, &e), format!("step {step}: {op} -- {}", e.1));
        return finish(out, art, &model, &counts, freed_then_alloc, realloc_of_freed, promotions);
      }
      // ---- invariants after every step
      // 1. every live handle reads back its text
      for h in handles.iter() {
        if !model.live(h) {
          continue;
        }
        match guard(|| h.p.as_str(&heap).to_string()) {
          Ok(s) => {
            if s != h.text {
              fail!(step, "readback/wrong-text", "handle created from {:?} now reads {:?}", h.text, s);
            }
          }
          Err(e) => {
            let state = h.slot.map(|s| format!("{:?}", model.slots[s].state)).unwrap_or("inline".into());
            fail!(step, format!("readback/live-string-reclaimed/{}", state.split(' ').next().unwrap_or("").trim_matches(|c: char| !c.is_alphabetic())), "handle for {:?} (model state {}) cannot be read: {}", h.text, state, e.1);
          }
        }
      }
      // 2. injectivity via the newest handle against all live ones (all pairs over time)
      if let Some(last) = handles.last()
        && model.live(last)
      {
        for h in handles.iter() {
          if !model.live(h) {
            continue;
          }
          if (h.text == last.text) != (h.p == last.p) {
            fail!(step, if h.text == last.text { "injectivity/equal-text-unequal-handles" } else { "injectivity/unequal-text-equal-handles" }, "{:?} vs {:?}", h.text, last.text);
          }
        }
      }
      // 3. module reference parts stay readable
      for (mr, texts) in modref_list.iter() {
        match guard(|| mr.get_parts(&heap).iter().map(|p| p.as_str(&heap).to_string()).collect::<Vec<_>>()) {
          Ok(got) => {
            if &got != texts {
              fail!(step, "modref-parts/wrong-text", "module reference {:?} now reads {:?}", texts, got);
            }
          }
          Err(e) => fail!(step, "modref-parts/reclaimed", "module reference {:?} unreadable: {}", texts, e.1),
        }
      }
      // 4. nothing reclaimed beyond what the contract allows
      if let Ok(stat) = guard(|| heap.stat())
        && let Some(unused) = parse_unused(&stat)
        && unused > model.freed_count()
      {
        fail!(step, "over-reclaim/stat", "heap reports {} reclaimed slots, the contract allows at most {}", unused, model.freed_count());
      }
    }
    let _ = counter;
    finish(out, art, &model, &counts, freed_then_alloc, realloc_of_freed, promotions)
  }
}

fn finish(mut out: Outcome, art: &Value, model: &Model, counts: &BTreeMap<&'static str, u64>, freed_then_alloc: bool, realloc_of_freed: u64, promotions: u64) -> Outcome {
  out.nontrivial = model.frees > 0 && freed_then_alloc && model.wraps > 0;
  for (k, v) in counts {
    if *v > 0 {
      out.label(format!("op:{k}"));
    }
  }
  if model.frees > 0 {
    out.label("seq:has-free");
  }
  if model.wraps > 1 {
    out.label("seq:cursor-wrapped>=2");
  }
  if realloc_of_freed > 0 {
    out.label("seq:realloc-of-freed-text");
  }
  if promotions > 0 {
    out.label("seq:promotion-temp-to-permanent");
  }
  let n = art["ops"].as_array().map(|a| a.len()).unwrap_or(0);
  out.label(format!("len:{}", if n < 10 { "<10" } else if n < 50 { "10-49" } else if n < 150 { "50-149" } else { ">=150" }));
  let shown: Vec<Value> = art["ops"].as_array().cloned().unwrap_or_default().into_iter().take(25).collect();
  out.sample = Some(json!({"ops_total": n, "first_ops": shown, "model_frees": model.frees, "cursor_wraps": model.wraps}));
  out
}
