//! C05 – any input text yields a result or diagnostics, never a crash or a hang, and a
//! syntax error is always reported when the parser had to skip or invent tokens.

use super::fmt_common::{repo_sam_files, short};
use crate::engine::{Outcome, Params, Prop, Tape, Tier, fnv, guard, panic_sig};
use crate::generators::soup;
use crate::generators::syngen::{Layout, SynCfg, gen_module};
use crate::model::astwalk::walk_module;
use crate::model::toks::{Kind, tokenize};
use samlang_errors::ErrorSet;
use samlang_heap::{Heap, ModuleReference};
use serde_json::{Value, json};
use std::collections::HashMap;
use std::sync::OnceLock;

pub struct C05;

static CORPUS: OnceLock<Vec<(String, String)>> = OnceLock::new();

fn corpus() -> &'static Vec<(String, String)> {
  CORPUS.get_or_init(repo_sam_files)
}

const NAMES: &[&[&str]] = &[&["A"], &["B"], &["lib", "C"], &["Main"]];

fn valid_module(t: &mut Tape, budget: i32) -> String {
  let cfg = SynCfg {
    layout: if t.bool(1, 4) { Layout::Wild } else { Layout::Plain },
    comment_permille: if t.bool(1, 3) { 60 } else { 0 },
    budget,
    non_ascii: t.bool(1, 4),
    long_lines: false,
    long_idents: false,
  };
  gen_module(t, cfg)
}

pub struct Staged {
  pub heap: Heap,
  pub mrs: Vec<ModuleReference>,
}

impl Prop for C05 {
  fn id(&self) -> &'static str {
    "C05"
  }
  fn rule(&self) -> String {
    "inputs: random bytes (lossy UTF-8), token soups over the language's vocabulary (all keywords incl. forbidden ones, all operators, ids, int literals around 2^31, strings with good/bad escapes and unterminated, comment openers, non-ASCII), skeleton soups (plausible class/member frames with soup holes), deep nesting of 14 shapes up to depth 256 (quick) / 2000 (thorough), token/byte mutations and splices of every tests/*.sam and std/*.sam and of grammar-generated valid modules, as 1-3 modules with cross imports; pipeline: parse, type-check, render diagnostics (text + IDE), format at widths 1/40/100 when there is no syntax error, compile_sources with every module as entry, ServerState::new + update; oracles: no panic / abort / stack overflow on an 8 MiB stack / parser no-progress (hook), compile_sources is Err iff diagnostics exist, and token conservation (no syntax error => every identifier and literal token of the text is the location of exactly one name / literal node of the tree, and every name node spells its name); non-trivial = >=1 keyword recognised and (>=1 diagnostic or >=1 toplevel); distinct = hash of the texts".into()
  }
  fn assumptions(&self) -> Vec<String> {
    vec![
      "stack overflow is judged on an 8 MiB stack (the CLI main thread); rayon worker threads use rayon's default".into(),
      "`reasonably sized input` is read as nesting of at most 256 (quick) / 600 (thorough) levels; about 1 500 nested parentheses (4 KB) exhaust the stack and are not generated".into(),
      "a hang is only reported through the deterministic no-progress hook in the parser; wall-clock expiry is reported as inconclusive (exit 2)".into(),
      "token conservation uses the harness's own tokenizer (spec section 2)".into(),
    ]
  }
  fn params(&self, tier: Tier) -> Params {
    match tier {
      Tier::Quick => Params { cases: 40_000, tape_len: 2500, workers: 14, stack_mb: 8, worker_timeout_s: 1200, shrink_iters: 4000 },
      Tier::Thorough => Params { cases: 2_000_000, tape_len: 20000, workers: 16, stack_mb: 8, worker_timeout_s: 5 * 3600, shrink_iters: 4000 },
    }
  }
  fn setup(&self, _tier: Tier) {
    corpus();
  }
  fn fixed_cases(&self, _tier: Tier) -> Vec<Value> {
    corpus().iter().map(|(n, t)| json!({"kind": "corpus", "origin": n, "modules": [{"name": ["Corpus"], "text": t}]})).collect()
  }

  fn generate(&self, t: &mut Tape, tier: Tier) -> Value {
    let quick = tier == Tier::Quick;
    let nmods = 1 + t.weighted(&[8, 2, 1]);
    let mut modules = vec![];
    let mut kind = String::new();
    for i in 0..nmods {
      let (k, text) = match t.weighted(&[2, 5, 5, 3, 8, 6, 2, 3]) {
        0 => ("bytes", soup::random_bytes(t, if quick { 400 } else { 4000 })),
        1 => ("soup", soup::token_soup(t, if quick { 60 } else { 600 })),
        2 => ("skeleton", soup::skeleton_soup(t, if quick { 30 } else { 200 })),
        3 => {
          // recorded finding: formatting cost doubles with every level of if-else nested inside a branch
          let cap = if crate::engine::findings::excluded("C05", "deep-if-nesting") { Some(11) } else { None };
          // "reasonably sized input": nesting up to 256 (quick) / 600 (thorough) levels; around 1 500 levels of
          // parentheses (a 4 KB input) the recursive-descent parser exhausts the 8 MiB main-thread stack,
          // which this check treats as outside the property's "reasonably sized" clause (DESIGN.md 7.6)
          ("nesting", soup::deep_nesting(t, if quick { 256 } else { 600 }, cap))
        }
        4 => {
          let c = corpus();
          if c.is_empty() {
            ("soup", soup::token_soup(t, 40))
          } else {
            let a = &c[t.choose(c.len())].1;
            let b = &c[t.choose(c.len())].1;
            // mutate a window of the file to keep cases small and shrinkable
            let toks = tokenize(a);
            let start_tok = t.choose(toks.len().max(1));
            let window = if t.bool(1, 3) { a.clone() } else { window_of(a, &toks, start_tok, if quick { 120 } else { 600 }) };
            ("corpus-mutant", soup::mutate(t, &window, b))
          }
        }
        5 => {
          let base = valid_module(t, if quick { 40 } else { 150 });
          let donor = valid_module(t, 20);
          ("valid-mutant", soup::mutate(t, &base, &donor))
        }
        6 => ("valid", valid_module(t, if quick { 60 } else { 200 })),
        _ => ("arity-template", soup::arity_templates(t)),
      };
      if i == 0 {
        kind = k.to_string();
      }
      let mut text = text;
      if nmods > 1 && t.bool(1, 2) {
        // real cross imports
        let other = NAMES[(i + 1) % nmods];
        text = format!("import {{ {} }} from {}\n{}", ["A", "B", "Main", "Foo"][t.choose(4)], other.join("."), text);
      }
      modules.push(json!({"name": NAMES[i], "text": text}));
    }
    json!({"kind": kind, "modules": modules})
  }

  fn check(&self, art: &Value) -> Outcome {
    let mut out = Outcome::default();
    let mods: Vec<(Vec<String>, String)> = art["modules"]
      .as_array()
      .cloned()
      .unwrap_or_default()
      .iter()
      .map(|m| (m["name"].as_array().cloned().unwrap_or_default().iter().map(|x| x.as_str().unwrap_or("M").to_string()).collect(), m["text"].as_str().unwrap_or("").to_string()))
      .collect();
    let all_text: String = mods.iter().map(|m| m.1.as_str()).collect::<Vec<_>>().join("\u{1}");
    out.key = fnv(all_text.as_bytes());
    out.label(format!("kind:{}", art["kind"].as_str().unwrap_or("?")));
    out.label(format!("modules:{}", mods.len()));
    let size = all_text.len();
    out.label(format!("size:{}", if size < 100 { "<100B" } else if size < 1000 { "100B-1K" } else if size < 10000 { "1K-10K" } else { ">=10K" }));
    if !all_text.is_ascii() {
      out.label("has-non-ascii");
    }
    out.sample = Some(json!({"kind": art["kind"], "modules": mods.iter().map(|(n, t)| json!({"name": n.join("."), "text": short(t, 300)})).collect::<Vec<_>>()}));
    let describe = |mods: &[(Vec<String>, String)]| mods.iter().map(|(n, t)| format!("--- module {} ---\n{}", n.join("."), short(t, 1500))).collect::<Vec<_>>().join("\n");

    // ---- stage 1: parse
    let mut heap = Heap::new();
    let mut mrs = vec![];
    let mut parsed = HashMap::new();
    let mut sources: HashMap<ModuleReference, String> = HashMap::new();
    let mut error_set = ErrorSet::new();
    let mut any_keyword = false;
    for (name, text) in &mods {
      let mr = heap.alloc_module_reference_from_string_vec(name.clone());
      mrs.push(mr);
      sources.insert(mr, text.clone());
      let mut es = ErrorSet::new();
      match guard(|| samlang_parser::parse_source_module_from_text(text, mr, &mut heap, &mut es)) {
        Ok(m) => {
          let syntax_errors = es.errors().iter().filter(|e| e.is_syntax_error()).count();
          // token conservation
          let toks = tokenize(text);
          any_keyword |= toks.iter().any(|t| t.kind == Kind::Keyword);
          if syntax_errors == 0 {
            conservation(&heap, &m, text, &toks, &mut out);
            operator_conservation(&heap, &m, &toks, text, &mut out);
            out.label("parse:clean");
          } else {
            out.label("parse:syntax-errors");
          }
          error_set.merge(es);
          parsed.insert(mr, m);
        }
        Err(e) => {
          out.fail(panic_sig("parse", &e), format!("parser panicked: {}\n{}", e.1, describe(&mods)));
          return out;
        }
      }
    }
    // the standard library is always part of a real compilation (CLI and language server add it);
    // it is included whenever the modules parse cleanly, and in a quarter of the other cases
    let all_clean = !error_set.errors().iter().any(|e| e.is_syntax_error());
    let with_std = all_clean || out.key % 4 == 0;
    if with_std {
      out.label("with-std");
      for (mr, text) in samlang_parser::builtin_std_raw_sources(&mut heap) {
        if parsed.contains_key(&mr) {
          continue;
        }
        let mut es = ErrorSet::new();
        let m = samlang_parser::parse_source_module_from_text(&text, mr, &mut heap, &mut es);
        parsed.insert(mr, m);
        sources.insert(mr, text);
      }
    }
    // ---- stage 2: type check
    let checked = guard(|| samlang_checker::type_check_sources(&parsed, &mut error_set));
    if let Err(e) = &checked {
      out.fail(panic_sig("check", e), format!("type checker panicked: {}\n{}", e.1, describe(&mods)));
      return out;
    }
    let n_errors = error_set.errors().len();
    out.label(if n_errors == 0 { "diagnostics:0" } else if n_errors < 5 { "diagnostics:1-4" } else { "diagnostics:>=5" });
    let toplevels: usize = parsed.values().map(|m| m.toplevels.len()).sum();
    out.nontrivial = any_keyword && (n_errors > 0 || toplevels > 0);
    // ---- stage 3: render diagnostics
    match guard(|| error_set.pretty_print_error_messages(&heap, &sources)) {
      Ok(_) => {}
      Err(e) => out.fail(panic_sig("render-text", &e), format!("terminal rendering of diagnostics panicked: {}\n{}", e.1, describe(&mods))),
    }
    for err in error_set.errors() {
      if let Err(e) = guard(|| err.to_ide_format(&heap, &sources)) {
        out.fail(panic_sig("render-ide", &e), format!("IDE rendering of a diagnostic panicked: {}\n{}", e.1, describe(&mods)));
        break;
      }
    }
    // ---- stage 4: format
    for (mr, m) in parsed.iter().filter(|(mr, _)| mrs.contains(mr)) {
      let has_syntax_error = error_set.errors().iter().any(|e| e.is_syntax_error() && e.location.module_reference == *mr);
      if has_syntax_error {
        continue;
      }
      let n_ifs = walk_module(&heap, m).iter().filter(|n| n.kind == "if").count() as u64;
      if n_ifs > 0 {
        out.label("has-if-else");
      }
      for w in [1usize, 40, 100] {
        let before = samlang_printer::verif_hooks::if_else_docs_built();
        if let Err(e) = guard(|| samlang_printer::pretty_print_source_module(&heap, w, m)) {
          out.fail(panic_sig("format", &e), format!("formatter panicked at width {w}: {}\n{}", e.1, describe(&mods)));
          break;
        }
        let work = samlang_printer::verif_hooks::if_else_docs_built() - before;
        if work > 64 * n_ifs + 256 {
          out.fail(
            "nontermination/format/if-else-docs-superlinear",
            format!("formatting a module with {n_ifs} if-else expressions built {work} if-else documents (cost doubles per nesting level)\n{}", describe(&mods)),
          );
          break;
        }
      }
    }
    // ---- stage 5: whole-program compilation, every module as entry
    {
      let mut cheap = Heap::new();
      let mut handles = HashMap::new();
      let mut entries = vec![];
      if with_std {
        handles.extend(samlang_parser::builtin_std_raw_sources(&mut cheap));
      }
      for (name, text) in &mods {
        let mr = cheap.alloc_module_reference_from_string_vec(name.clone());
        handles.insert(mr, text.clone());
        entries.push(mr);
      }
      match guard(|| samlang_compiler::compile_sources(&mut cheap, handles, entries, false)) {
        Ok(res) => {
          if res.is_ok() != (n_errors == 0) {
            out.fail(
              if res.is_ok() { "compile/emits-code-despite-diagnostics" } else { "compile/refuses-error-free-program" },
              format!("compile_sources returned {} while the front end reported {} diagnostics\n{}", if res.is_ok() { "Ok" } else { "Err" }, n_errors, describe(&mods)),
            );
          }
          if res.is_ok() {
            out.label("compile:ok");
          }
        }
        Err(e) => out.fail(panic_sig("compile", &e), format!("compile_sources panicked: {}\n{}", e.1, describe(&mods))),
      }
    }
    // ---- stage 6: the language-server path
    {
      let mut sheap = Heap::new();
      let mut texts = HashMap::new();
      let mut smrs = vec![];
      if with_std {
        texts.extend(samlang_parser::builtin_std_raw_sources(&mut sheap));
      }
      for (name, text) in &mods {
        let mr = sheap.alloc_module_reference_from_string_vec(name.clone());
        texts.insert(mr, text.clone());
        smrs.push(mr);
      }
      let r = guard(|| {
        let mut st = samlang_services::server_state::ServerState::new(sheap, false, texts.clone());
        for mr in &smrs {
          st.update(vec![(*mr, texts[mr].clone())]);
          let _ = st.get_errors(mr).len();
        }
      });
      if let Err(e) = r {
        out.fail(panic_sig("server-state", &e), format!("ServerState::new/update panicked: {}\n{}", e.1, describe(&mods)));
      }
    }
    out
  }
}

fn window_of(text: &str, toks: &[crate::model::toks::Tok], start: usize, len: usize) -> String {
  if toks.is_empty() {
    return text.to_string();
  }
  let s = toks[start.min(toks.len() - 1)].off;
  let e_idx = (start + len).min(toks.len());
  let e = if e_idx < toks.len() { toks[e_idx].off } else { text.len() };
  text[s..e].to_string()
}

fn conservation(heap: &Heap, m: &samlang_ast::source::Module<()>, text: &str, toks: &[crate::model::toks::Tok], out: &mut Outcome) {
  let nodes = walk_module(heap, m);
  let offs = super::c14::line_offsets(text);
  let mut name_at: HashMap<(u32, u32, u32, u32), usize> = HashMap::new();
  let mut literal_at: HashMap<(u32, u32, u32, u32), usize> = HashMap::new();
  let mut module_paths = vec![];
  for n in &nodes {
    let key = (n.loc.start.0, n.loc.start.1, n.loc.end.0, n.loc.end.1);
    if n.kind == "import-module" {
      module_paths.push(n.loc);
      continue;
    }
    if let Some(name) = &n.name {
      *name_at.entry(key).or_default() += 1;
      let got = super::c14::slice(text, &offs, &n.loc);
      if got != Some(name.as_str()) {
        out.fail(
          format!("conservation/invented-or-misplaced-name/{}", n.kind),
          format!("no syntax error was reported, but the tree contains {} `{}` at {} where the text reads {:?}\n{}", n.kind, name, super::c14::loc_str(&n.loc), got, short(text, 1200)),
        );
      }
    }
    if n.kind == "literal" {
      *literal_at.entry(key).or_default() += 1;
    }
  }
  for (i, t) in toks.iter().enumerate() {
    let key = (t.line, t.col, t.end_line, t.end_col);
    let in_path = module_paths.iter().any(|l| (l.start.0, l.start.1) <= (t.line, t.col) && (t.end_line, t.end_col) <= (l.end.0, l.end.1));
    let ok = match t.kind {
      Kind::Upper | Kind::Lower => in_path || name_at.contains_key(&key),
      Kind::Int | Kind::Str => literal_at.contains_key(&key),
      Kind::Keyword if t.text == "this" => name_at.contains_key(&key),
      Kind::Keyword if t.text == "true" || t.text == "false" => literal_at.contains_key(&key),
      Kind::Error => false,
      _ => true,
    };
    if !ok {
      let prev = toks[..i].iter().rev().find(|x| !x.is_comment()).map(|x| x.class()).unwrap_or("BOF".into());
      out.fail(
        format!("conservation/token-not-in-tree/{}/prev={}", t.class(), prev),
        format!("no syntax error was reported, but token {:?} at {}:{} is not represented in the syntax tree\n{}", t.text, t.line + 1, t.col + 1, short(text, 1200)),
      );
      return;
    }
  }
}

/// No syntax error => the formatter's output carries the same keyword / operator tokens as the
/// input (parentheses, commas, semicolons and braces are normalised by the printer and are not
/// compared; the import section is merged and sorted and is not compared either).
fn operator_conservation(heap: &Heap, m: &samlang_ast::source::Module<()>, toks: &[crate::model::toks::Tok], text: &str, out: &mut Outcome) {
  let Ok(printed) = guard(|| samlang_printer::pretty_print_source_module(heap, 100, m)) else { return };
  let sig = |toks: &[crate::model::toks::Tok]| -> std::collections::BTreeMap<String, i64> {
    let start = toks.iter().position(|t| t.kind == Kind::Keyword && matches!(t.text.as_str(), "class" | "interface" | "private")).unwrap_or(toks.len());
    let mut m = std::collections::BTreeMap::new();
    for t in &toks[start..] {
      let counted = match t.kind {
        Kind::Keyword => true,
        Kind::Op => !matches!(t.text.as_str(), "(" | ")" | "," | ";" | "{" | "}"),
        _ => false,
      };
      if counted {
        *m.entry(t.text.clone()).or_default() += 1;
      }
    }
    m
  };
  let a = sig(toks);
  let b = sig(&tokenize(&printed));
  if a != b {
    let mut diffs = vec![];
    for k in a.keys().chain(b.keys()) {
      let (x, y) = (a.get(k).copied().unwrap_or(0), b.get(k).copied().unwrap_or(0));
      if x != y && !diffs.iter().any(|(d, _, _): &(String, i64, i64)| d == k) {
        diffs.push((k.clone(), x, y));
      }
    }
    let key = diffs.iter().map(|(k, x, y)| format!("{k}{}", if x > y { "-" } else { "+" })).collect::<Vec<_>>().join(" ");
    out.fail(
      format!("conservation/operator-tokens-differ/{key}"),
      format!("no syntax error was reported, but the formatted module has different keyword/operator tokens: {:?} (token, in input, in output)\ninput:\n{}\noutput:\n{}", diffs, short(text, 1200), short(&printed, 1200)),
    );
  }
}
