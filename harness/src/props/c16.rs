//! C16 – text edits proposed by the language server (auto-import quick fix, completion's
//! additional edits) apply cleanly and do what they say.

use crate::engine::{Outcome, Params, Prop, Tape, Tier, fnv, guard, panic_sig};
use crate::model::canon::Canon;
use crate::model::toks::tokenize;
use samlang_ast::{Location, Position};
use samlang_heap::{Heap, ModuleReference};
use samlang_services::server_state::ServerState;
use samlang_services::{completion, rewrite};
use serde_json::{Value, json};
use std::collections::HashMap;

pub struct C16;

fn cls(c: usize, long: bool) -> String {
  if long { format!("AnExportedClassWithALongName{c}") } else { format!("K{c}") }
}

const LIBS: [&[&str]; 4] = [&["L0"], &["lib", "L1"], &["deep", "er", "L2"], &["AnotherLibraryModuleWithALongName"]];

fn lib_text(classes: &[usize], long: bool) -> String {
  let mut s = String::new();
  for c in classes {
    let n = cls(*c, long);
    s.push_str(&format!("class {n}(val v: int) {{\n  function make(): {n} = {n}.init(0)\n\n  method get(): int = this.v\n}}\n\n"));
  }
  s
}

fn comment(t: &mut Tape) -> &'static str {
  ["// a line comment\n", "/* a block comment */\n", "/** a doc comment */\n", "/* multi\n   line */\n", "// second\n// third\n"][t.choose(5)]
}

/// the edited document: imports in any order / layout with comments between them, then classes
/// using imported classes and some classes that are exported elsewhere but not imported
fn doc_text(t: &mut Tape, exports: &[(usize, Vec<usize>)], long: bool) -> (String, Vec<usize>) {
  let mut s = String::new();
  if t.bool(1, 5) {
    s.push_str(comment(t));
  }
  let n_imports = t.weighted(&[2, 3, 3, 2, 1]);
  let mut imported: Vec<usize> = vec![];
  for _ in 0..n_imports {
    let (li, classes) = &exports[t.choose(exports.len())];
    if classes.is_empty() {
      continue;
    }
    let mut names = vec![];
    for _ in 0..1 + t.choose(3) {
      let c = classes[t.choose(classes.len())];
      if !imported.contains(&c) {
        imported.push(c);
        names.push(cls(c, long));
      }
    }
    if names.is_empty() {
      continue;
    }
    if t.bool(1, 3) {
      s.push_str(comment(t));
    }
    let module = LIBS[*li].join(".");
    // what follows the import on its own line: nothing, a comment that ends on the line, a block
    // comment that continues onto the next lines, or the next import / the first class
    let tail = ["\n", " // trailing line comment\n", " /* trailing */\n", " /* a trailing block comment\n   that continues below */\n", " "][t.weighted(&[8, 1, 1, 2, 1])];
    match t.weighted(&[5, 2, 2, 1]) {
      0 => s.push_str(&format!("import {{ {} }} from {module};{tail}", names.join(", "))),
      1 => s.push_str(&format!("import {{\n  {}\n}} from {module};{tail}", names.join(",\n  "))),
      2 => s.push_str(&format!("import {{ {} }} from {module}{tail}", names.join(", "))),
      _ => s.push_str(&format!("import {{{}}} from   {module} ;{tail}\n\n", names.join(","))),
    }
  }
  if t.bool(1, 4) {
    s.push_str(comment(t));
  }
  // (when the last import did not end its line, the first class starts on that line)
  if !s.ends_with(' ') {
    s.push('\n');
  }
  // classes
  let all: Vec<usize> = exports.iter().flat_map(|(_, c)| c.iter().copied()).collect();
  let mut unresolved = vec![];
  let n_classes = 1 + t.choose(2);
  for k in 0..n_classes {
    if t.bool(1, 4) {
      s.push_str(comment(t));
    }
    s.push_str(&format!("class Doc{k} {{\n"));
    for m in 0..1 + t.choose(3) {
      let c = all[t.choose(all.len())];
      if !imported.contains(&c) && !unresolved.contains(&c) {
        unresolved.push(c);
      }
      let n = cls(c, long);
      match t.choose(3) {
        0 => s.push_str(&format!("  function f{m}(): int = {n}.make().get()\n\n")),
        1 => s.push_str(&format!("  function f{m}(x: {n}): int = x.get()\n\n")),
        _ => s.push_str(&format!("  function f{m}(): {n} = {{\n    let y = {n}.make();\n    y\n  }}\n\n")),
      }
    }
    s.push_str("}\n\n");
  }
  (s, unresolved)
}

fn apply_edits(text: &str, edits: &[(Location, String)]) -> Result<String, String> {
  let lines: Vec<&str> = text.split('\n').collect();
  let offset = |p: Position| -> Result<usize, String> {
    let (l, c) = (p.0 as usize, p.1 as usize);
    if l > lines.len() || (l == lines.len() && c > 0) {
      return Err(format!("line {} is outside the document ({} lines)", l + 1, lines.len()));
    }
    if l == lines.len() {
      return Ok(text.len());
    }
    if c > lines[l].len() {
      return Err(format!("column {} is past the end of line {} (length {})", c + 1, l + 1, lines[l].len()));
    }
    Ok(lines[..l].iter().map(|x| x.len() + 1).sum::<usize>() + c)
  };
  let mut spans: Vec<(usize, usize, &str)> = vec![];
  for (loc, new_text) in edits {
    let (a, b) = (offset(loc.start)?, offset(loc.end)?);
    if a > b {
      return Err(format!("edit range {}:{}-{}:{} ends before it starts", loc.start.0 + 1, loc.start.1 + 1, loc.end.0 + 1, loc.end.1 + 1));
    }
    spans.push((a, b, new_text.as_str()));
  }
  spans.sort_by_key(|s| (s.0, s.1));
  for w in spans.windows(2) {
    if w[0].1 > w[1].0 {
      return Err("edit ranges overlap".to_string());
    }
  }
  let mut out = text.to_string();
  for (a, b, new_text) in spans.iter().rev() {
    if !out.is_char_boundary(*a) || !out.is_char_boundary(*b) {
      return Err("edit range splits a character".to_string());
    }
    out.replace_range(*a..*b, new_text);
  }
  Ok(out)
}

fn comment_inventory(text: &str) -> Vec<String> {
  let mut v: Vec<String> = tokenize(text).into_iter().filter(|t| t.is_comment()).map(|t| t.text.split_whitespace().collect::<Vec<_>>().join(" ")).collect();
  v.sort();
  v
}

struct W {
  state: ServerState,
  doc: ModuleReference,
}

impl Prop for C16 {
  fn id(&self) -> &'static str {
    "C16"
  }
  fn rule(&self) -> String {
    "workspaces of 2-4 library modules (dotted and long names) exporting 1-3 classes each (a class name may be exported by two modules) and a document with 0-4 existing imports in any order and layout (one line, one member per line, without semicolon, odd spacing; followed on the same line by nothing, a line comment, a one-line block comment, a block comment that continues on the next line, or the next import / the first class), comments (line / block / doc / multi-line) before, between and after the imports, and 1-2 classes using imported classes and 1-3 classes that are exported elsewhere but not imported; 0-2 earlier edits of the document and the libraries precede the request; for every `Cannot resolve class` diagnostic every auto-import quick fix (code_actions at the diagnostic's location) and, at a class-name position, every completion item with additional edits is applied to the text; oracle: edit ranges lie inside the document, do not overlap and do not split characters; the new text has no syntax error; its imports are the old ones plus the named (module, class); its classes have the same canonical AST; its comments are the same multiset; after sending the new text to the server the class is no longer reported as unresolved and no new diagnostic appears; non-trivial = the document has >=1 existing import and >=1 comment in the import section, or >=2 candidate quick fixes; distinct = hash of the workspace".into()
  }
  fn assumptions(&self) -> Vec<String> {
    vec![
      "the named module and class of a quick fix are read from its title (Import `X` from `M`); a completion item's class is its label and the module is whichever import of that class the new text contains".into(),
      "positions are (0-based line, 0-based byte column), the convention the parser's locations use".into(),
    ]
  }
  fn params(&self, tier: Tier) -> Params {
    match tier {
      Tier::Quick => Params { cases: 12_000, tape_len: 1200, workers: 14, stack_mb: 64, worker_timeout_s: 1500, shrink_iters: 1500 },
      Tier::Thorough => Params { cases: 300_000, tape_len: 2500, workers: 16, stack_mb: 64, worker_timeout_s: 5 * 3600, shrink_iters: 1500 },
    }
  }
  fn generate(&self, t: &mut Tape, _tier: Tier) -> Value {
    let long = t.bool(1, 3);
    let n_libs = 2 + t.choose(3);
    let mut exports: Vec<(usize, Vec<usize>)> = vec![];
    for li in 0..n_libs {
      let mut classes = vec![];
      for _ in 0..1 + t.choose(3) {
        let c = t.choose(7);
        if !classes.contains(&c) {
          classes.push(c);
        }
      }
      exports.push((li, classes));
    }
    let libs: Vec<Value> = exports.iter().map(|(li, c)| json!({"name": LIBS[*li], "text": lib_text(c, long)})).collect();
    let mut history = vec![];
    for _ in 0..t.choose(3) {
      if t.bool(1, 2) {
        let (d, _) = doc_text(t, &exports, long);
        history.push(json!({"name": ["Doc"], "text": d}));
      } else {
        let (li, c) = &exports[t.choose(exports.len())];
        history.push(json!({"name": LIBS[*li], "text": lib_text(c, long)}));
      }
    }
    let in_initial = t.bool(1, 2);
    let (doc, unresolved) = doc_text(t, &exports, long);
    json!({"libs": libs, "history": history, "doc": doc, "doc_in_initial": in_initial, "unresolved": unresolved.iter().map(|c| cls(*c, long)).collect::<Vec<_>>(), "pick": t.raw()})
  }

  fn check(&self, art: &Value) -> Outcome {
    let mut out = Outcome::default();
    out.key = fnv(art.to_string().as_bytes());
    let doc = art["doc"].as_str().unwrap_or("").to_string();
    let name_of = |v: &Value| -> Vec<String> { v.as_array().cloned().unwrap_or_default().iter().map(|x| x.as_str().unwrap_or("").to_string()).collect() };
    let build = |doc_text: &str| -> Result<W, (String, String)> {
      let mut heap = Heap::new();
      let mut sources = HashMap::new();
      for l in art["libs"].as_array().cloned().unwrap_or_default() {
        sources.insert(heap.alloc_module_reference_from_string_vec(name_of(&l["name"])), l["text"].as_str().unwrap_or("").to_string());
      }
      let docmr = heap.alloc_module_reference_from_string_vec(vec!["Doc".to_string()]);
      let in_initial = art["doc_in_initial"].as_bool().unwrap_or(true);
      if in_initial {
        sources.insert(docmr, doc_text.to_string());
      }
      guard(|| {
        let mut state = ServerState::new(heap, false, sources);
        for h in art["history"].as_array().cloned().unwrap_or_default() {
          let mr = state.heap.alloc_module_reference_from_string_vec(name_of(&h["name"]));
          state.update(vec![(mr, h["text"].as_str().unwrap_or("").to_string())]);
        }
        // the libraries' final texts, then the document
        for l in art["libs"].as_array().cloned().unwrap_or_default() {
          let mr = state.heap.alloc_module_reference_from_string_vec(name_of(&l["name"]));
          state.update(vec![(mr, l["text"].as_str().unwrap_or("").to_string())]);
        }
        state.update(vec![(docmr, doc_text.to_string())]);
        W { state, doc: docmr }
      })
    };
    let w = match build(&doc) {
      Ok(w) => w,
      Err(_) => return Outcome::discarded("server-panics(C11)"),
    };
    let render = |w: &W| -> Vec<String> {
      let mut v: Vec<String> = w.state.get_errors(&w.doc).iter().map(|e| e.to_ide_format(&w.state.heap, &w.state.string_sources).ide_error).collect();
      v.sort();
      v
    };
    let before = render(&w);
    if w.state.get_errors(&w.doc).iter().any(|e| e.is_syntax_error()) {
      return Outcome::discarded("INFRA:generated-document-has-syntax-errors");
    }
    let Ok(old) = crate::model::front::parse(&doc, &["Doc"]) else { return Outcome::discarded("parser-panics(C05)") };
    let old_imports = Canon::new(&old.heap).imports(&old.module);
    let old_tops = Canon::new(&old.heap).toplevels(&old.module);
    let import_section_comments = doc.split("class Doc0").next().map(|s| comment_inventory(s).len()).unwrap_or(0);
    // candidate edit sets: (kind, class, module if known, edits)
    let mut candidates: Vec<(String, String, Option<String>, Vec<(Location, String)>)> = vec![];
    let unresolved_locs: Vec<(Location, String)> = w
      .state
      .get_errors(&w.doc)
      .iter()
      .filter_map(|e| {
        let m = e.to_ide_format(&w.state.heap, &w.state.string_sources).ide_error;
        m.strip_prefix("Cannot resolve class `").map(|r| (e.location, r.trim_end_matches("`.").to_string()))
      })
      .collect();
    for (loc, class) in &unresolved_locs {
      match guard(|| rewrite::code_actions(&w.state, *loc)) {
        Err(e) => {
          out.fail(panic_sig("code_actions", &e), format!("{}\n--- document ---\n{doc}", e.1));
          return out;
        }
        Ok(actions) => {
          for a in actions {
            let rewrite::CodeAction::Quickfix { title, edits } = a;
            let module = title.split("from `").nth(1).map(|x| x.trim_end_matches('`').to_string());
            let named = title.split('`').nth(1).unwrap_or("").to_string();
            if &named != class {
              out.fail("quickfix/names-another-class", format!("quick fix {title:?} offered for unresolved class {class}\n--- document ---\n{doc}"));
              return out;
            }
            candidates.push(("quickfix".into(), class.clone(), module, edits));
          }
        }
      }
    }
    let quickfixes = candidates.len();
    // completion at a class-name position (the first resolved class use, if any)
    let pick = art["pick"].as_u64().unwrap_or(0);
    let toks = tokenize(&doc);
    let class_uses: Vec<&crate::model::toks::Tok> = toks.windows(2).filter(|p| p[0].kind == crate::model::toks::Kind::Upper && p[1].text == "." && p[0].text != "Process").map(|p| &p[0]).collect();
    if !class_uses.is_empty() {
      let tk = class_uses[(pick as usize) % class_uses.len()];
      match guard(|| completion::auto_complete(&w.state, &w.doc, Position(tk.line, tk.col + 1))) {
        Err(e) => {
          out.fail(panic_sig("completion", &e), format!("{}\n--- document ---\n{doc}", e.1));
          return out;
        }
        Ok(items) => {
          let with_edits: Vec<_> = items.into_iter().filter(|i| !i.additional_edits.is_empty()).collect();
          if !with_edits.is_empty() {
            out.label("completion:items-with-additional-edits");
            // one tape-chosen item (all of them have the same shape)
            let it = &with_edits[(pick as usize / 7) % with_edits.len()];
            candidates.push(("completion".into(), it.label.clone(), None, it.additional_edits.clone()));
          }
        }
      }
    }
    if candidates.is_empty() {
      return Outcome::discarded("no-edit-proposed");
    }
    out.nontrivial = (!old_imports.is_empty() && import_section_comments >= 1) || quickfixes >= 2;
    out.label(format!("existing-imports:{}", old.module.imports.len().min(4)));
    out.label(format!("comments-in-import-section:{}", import_section_comments.min(3)));
    out.label(format!("quick-fixes:{}", quickfixes.min(4)));
    out.sample = Some(json!({"document": super::fmt_common::short(&doc, 600), "candidates": candidates.iter().map(|c| format!("{} {} {:?} ({} edits)", c.0, c.1, c.2, c.3.len())).collect::<Vec<_>>()}));
    for (kind, class, module, edits) in &candidates {
      let shown: Vec<String> = edits.iter().map(|(l, x)| format!("{}:{}-{}:{} -> {:?}", l.start.0 + 1, l.start.1 + 1, l.end.0 + 1, l.end.1 + 1, x)).collect();
      let ctx = |what: &str, new_text: &str| format!("{what}\n{kind} for class {class} (module {module:?}); edits: {shown:#?}\n--- document ---\n{doc}\n--- after the edits ---\n{new_text}");
      if edits.is_empty() {
        out.fail(format!("{kind}/no-edits"), ctx("the action carries no edits", ""));
        return out;
      }
      let new_text = match apply_edits(&doc, edits) {
        Ok(x) => x,
        Err(why) => {
          out.fail(format!("{kind}/edit-range/{}", crate::engine::msg_class(&why)), ctx(&why, ""));
          return out;
        }
      };
      let Ok(new) = crate::model::front::parse(&new_text, &["Doc"]) else {
        out.fail(format!("{kind}/new-text-crashes-parser"), ctx("the parser panics on the edited text", &new_text));
        return out;
      };
      if !new.syntax_errors.is_empty() {
        out.fail(format!("{kind}/syntax-error-after-edit"), ctx(&format!("the edited text has syntax errors: {:?}", new.syntax_errors.iter().take(2).map(|e| &e.1).collect::<Vec<_>>()), &new_text));
        return out;
      }
      let new_imports = Canon::new(&new.heap).imports(&new.module);
      let added: Vec<&(String, String)> = new_imports.iter().filter(|i| !old_imports.contains(i)).collect();
      let lost: Vec<&(String, String)> = old_imports.iter().filter(|i| !new_imports.contains(i)).collect();
      let ok_added = added.len() == 1 && added[0].1 == *class && module.as_ref().map(|m| *m == added[0].0).unwrap_or(true);
      if !ok_added || !lost.is_empty() {
        out.fail(format!("{kind}/wrong-imports-after-edit"), ctx(&format!("imports added: {added:?}, lost: {lost:?}"), &new_text));
        return out;
      }
      let new_tops = Canon::new(&new.heap).toplevels(&new.module);
      if new_tops != old_tops {
        out.fail(format!("{kind}/classes-changed"), ctx(&format!("the classes of the document changed: {}", crate::model::canon::first_diff(&old_tops, &new_tops)), &new_text));
        return out;
      }
      if comment_inventory(&doc) != comment_inventory(&new_text) {
        out.fail(format!("{kind}/comments-changed"), ctx(&format!("comments before: {:?}, after: {:?}", comment_inventory(&doc), comment_inventory(&new_text)), &new_text));
        return out;
      }
      // the server's view after the edit
      let w2 = match build(&new_text) {
        Ok(w) => w,
        Err(e) => {
          out.fail(panic_sig("update-with-edited-text", &e), ctx(&e.1, &new_text));
          return out;
        }
      };
      let after = render(&w2);
      let needle = format!("Cannot resolve class `{class}`.");
      if after.iter().any(|m| *m == needle) {
        out.fail(format!("{kind}/class-still-unresolved"), ctx(&format!("after the edit the server still reports {needle}"), &new_text));
        return out;
      }
      let new_diags: Vec<&String> = after.iter().filter(|m| !before.contains(m)).collect();
      if !new_diags.is_empty() {
        out.fail(format!("{kind}/new-diagnostics"), ctx(&format!("new diagnostics after the edit: {new_diags:?}"), &new_text));
        return out;
      }
      out.label(format!("applied:{kind}"));
    }
    out
  }
}
