pub mod syngen;
