use crate::engine::Prop;

pub mod behav;
pub mod c02;
pub mod c05;
pub mod c06;
pub mod c07;
pub mod c08;
pub mod c09;
pub mod c12;
pub mod c13;
pub mod c14;
pub mod c15;
pub mod c16;
pub mod c17;
pub mod c18;
pub mod fmt_common;
pub mod lsp;
pub mod run_common;

pub fn all() -> Vec<&'static dyn Prop> {
  vec![&behav::C01, &c02::C02, &behav::C03, &behav::C04, &c05::C05, &c06::C06, &c07::C07, &c08::C08, &c09::C09, &c12::C12, &c13::C13, &c14::C14, &c15::C15, &c16::C16, &c17::C17, &c18::C18, &lsp::C10, &lsp::C11]
}

pub fn by_id(id: &str) -> Option<&'static dyn Prop> {
  all().into_iter().find(|p| p.id() == id)
}
