//! Independent tokenizer for samlang source text, written from the language
//! specification §2 (lexical structure). It does not share code with samlang-parser.
//! Used as ground truth for token positions (C14), comment inventory (C09) and token
//! conservation (C05).

#[derive(Clone, Copy, Debug, PartialEq, Eq, Hash, PartialOrd, Ord)]
pub enum Kind {
  Keyword,
  Op,
  Upper,
  Lower,
  Int,
  Str,
  LineComment,
  BlockComment,
  DocComment,
  Error,
}

#[derive(Clone, Debug, PartialEq, Eq)]
pub struct Tok {
  pub kind: Kind,
  pub text: String,
  /// 0-based line, 0-based *byte* column of the first byte
  pub line: u32,
  pub col: u32,
  /// end position (exclusive)
  pub end_line: u32,
  pub end_col: u32,
  pub off: usize,
}

impl Tok {
  pub fn is_comment(&self) -> bool {
    matches!(self.kind, Kind::LineComment | Kind::BlockComment | Kind::DocComment)
  }
  /// class used in finding signatures
  pub fn class(&self) -> String {
    match self.kind {
      Kind::Keyword | Kind::Op => self.text.clone(),
      Kind::Upper => "UpperId".into(),
      Kind::Lower => "lowerId".into(),
      Kind::Int => "INT".into(),
      Kind::Str => "STR".into(),
      Kind::LineComment => "//".into(),
      Kind::BlockComment => "/*".into(),
      Kind::DocComment => "/**".into(),
      Kind::Error => "ERR".into(),
    }
  }
}

pub const KEYWORDS: &[&str] = &[
  "import", "from", "class", "interface", "val", "function", "method", "as", "private", "protected", "internal", "public", "if", "then",
  "else", "match", "return", "int", "string", "bool", "unit", "true", "false", "this", "self", "const", "let", "var", "type", "constructor",
  "destructor", "extends", "implements", "exports", "assert",
];

pub const OPS: &[&str] = &[
  "...", "->", "::", "<=", ">=", "==", "!=", "&&", "||", "_", "(", ")", "{", "}", "[", "]", "?", ";", ":", ",", ".", "|", "=", "!", "*", "/", "%",
  "+", "-", "<", ">",
];

/// The comment text as the language defines it: for `//`, everything after the marker,
/// trimmed; for block/doc comments, every line trimmed, a leading `*` dropped, empty
/// lines dropped, joined by one space.
pub fn normalize_block_comment(body: &str) -> String {
  let mut parts = vec![];
  for line in body.split('\n') {
    let l = line.trim_start();
    let l = if let Some(rest) = l.strip_prefix('*') { rest.trim() } else { l.trim_end() };
    if !l.is_empty() {
      parts.push(l.to_string());
    }
  }
  parts.join(" ")
}

pub fn tokenize(src: &str) -> Vec<Tok> {
  let b = src.as_bytes();
  let mut out = vec![];
  let mut i = 0usize;
  let mut line = 0u32;
  let mut col = 0u32;
  macro_rules! adv {
    ($n:expr) => {{
      for k in 0..$n {
        if b[i + k] == b'\n' {
          line += 1;
          col = 0;
        } else {
          col += 1;
        }
      }
      i += $n;
    }};
  }
  while i < b.len() {
    let c = b[i];
    if c.is_ascii_whitespace() {
      adv!(1);
      continue;
    }
    let (sl, sc, so) = (line, col, i);
    // string literal: must close on the same line
    if c == b'"' {
      let mut j = i + 1;
      let mut closed = None;
      while j < b.len() && b[j] != b'\n' {
        if b[j] == b'\\' {
          j += 2;
          continue;
        }
        if b[j] == b'"' {
          closed = Some(j);
          break;
        }
        j += 1;
      }
      if let Some(j) = closed {
        let n = j + 1 - i;
        adv!(n);
        out.push(Tok { kind: Kind::Str, text: src[so..so + n].to_string(), line: sl, col: sc, end_line: line, end_col: col, off: so });
        continue;
      }
    }
    if c == b'/' && i + 1 < b.len() && b[i + 1] == b'/' {
      let mut j = i;
      while j < b.len() && b[j] != b'\n' {
        j += 1;
      }
      let n = j - i;
      adv!(n);
      let text = String::from_utf8_lossy(&b[so + 2..so + n]).trim().to_string();
      out.push(Tok { kind: Kind::LineComment, text, line: sl, col: sc, end_line: line, end_col: col, off: so });
      continue;
    }
    if c == b'/' && i + 1 < b.len() && b[i + 1] == b'*' {
      // find terminator
      let mut j = i + 2;
      let mut end = None;
      while j + 1 < b.len() {
        if b[j] == b'*' && b[j + 1] == b'/' {
          end = Some(j + 2);
          break;
        }
        j += 1;
      }
      if let Some(e) = end {
        let n = e - i;
        let body = &b[so + 2..e - 2];
        let (kind, body) = if body.first() == Some(&b'*') { (Kind::DocComment, &body[1..]) } else { (Kind::BlockComment, body) };
        let text = normalize_block_comment(&String::from_utf8_lossy(body));
        adv!(n);
        out.push(Tok { kind, text, line: sl, col: sc, end_line: line, end_col: col, off: so });
        continue;
      }
    }
    if c.is_ascii_alphabetic() {
      let mut j = i;
      while j < b.len() && b[j].is_ascii_alphanumeric() {
        j += 1;
      }
      let n = j - i;
      let text = &src[i..j];
      let kind = if KEYWORDS.contains(&text) {
        Kind::Keyword
      } else if c.is_ascii_uppercase() {
        Kind::Upper
      } else {
        Kind::Lower
      };
      adv!(n);
      out.push(Tok { kind, text: text.to_string(), line: sl, col: sc, end_line: line, end_col: col, off: so });
      continue;
    }
    if c.is_ascii_digit() {
      let mut j = i;
      if c == b'0' {
        j += 1;
      } else {
        while j < b.len() && b[j].is_ascii_digit() {
          j += 1;
        }
      }
      let n = j - i;
      adv!(n);
      out.push(Tok { kind: Kind::Int, text: src[so..so + n].to_string(), line: sl, col: sc, end_line: line, end_col: col, off: so });
      continue;
    }
    let mut matched = None;
    for op in OPS {
      if b[i..].starts_with(op.as_bytes()) {
        matched = Some(*op);
        break;
      }
    }
    if let Some(op) = matched {
      let n = op.len();
      adv!(n);
      out.push(Tok { kind: Kind::Op, text: op.to_string(), line: sl, col: sc, end_line: line, end_col: col, off: so });
      continue;
    }
    // error token: up to next whitespace
    let mut j = i;
    while j < b.len() && !b[j].is_ascii_whitespace() {
      j += 1;
    }
    let n = j - i;
    adv!(n);
    out.push(Tok { kind: Kind::Error, text: String::from_utf8_lossy(&b[so..so + n]).to_string(), line: sl, col: sc, end_line: line, end_col: col, off: so });
  }
  // merge `-` `2147483648` into one literal, as the language does for INT_MIN
  let mut merged: Vec<Tok> = vec![];
  for t in out {
    if t.kind == Kind::Int
      && t.text == "2147483648"
      && let Some(prev) = merged.last()
      && prev.kind == Kind::Op
      && prev.text == "-"
    {
      let p = merged.pop().unwrap();
      merged.push(Tok { kind: Kind::Int, text: "-2147483648".into(), line: p.line, col: p.col, end_line: t.end_line, end_col: t.end_col, off: p.off });
      continue;
    }
    merged.push(t);
  }
  merged
}

/// line lengths in bytes (without the terminating '\n'); a trailing '\r' counts as a byte.
pub fn line_lengths(src: &str) -> Vec<u32> {
  src.split('\n').map(|l| l.len() as u32).collect()
}
