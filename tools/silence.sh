#!/bin/bash
# Developer tool: run the quick tier of the given checks (default: all claimed) for several seeds; print exit codes.
# usage: tools/silence.sh "<seeds>" [ID...]
cd /verif
SEEDS="$1"; shift
IDS="$@"
[ -z "$IDS" ] && IDS=$(python3 -c "import json; print(' '.join(c['property_id'] for c in json.load(open('MANIFEST.json'))['checks']))")
for s in $SEEDS; do for id in $IDS; do
  out=$(VERIF_SEED=$s ./check $id 2>&1); rc=$?
  echo "seed=$s $id rc=$rc $(echo "$out" | grep -E "^$id " | tail -1)"
  [ $rc -ne 0 ] && echo "$out" | grep -E "VIOLATION|signature|INCONCLUSIVE" | head -6
done; done
