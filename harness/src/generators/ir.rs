//! G1 typed IR: a small typed AST for samlang programs, built goal-directed by progen.rs and
//! rendered to source text. It records the type of every expression and the binder of every
//! local name (names are unique per member, so occurrences can be recovered from the text).

#[derive(Clone, Debug, PartialEq, Eq, Hash)]
pub enum Ty {
  Int,
  Bool,
  Unit,
  Str,
  /// user or std class: (module path, class name, type arguments)
  Class(Vec<String>, String, Vec<Ty>),
  Fn(Vec<Ty>, Box<Ty>),
  TParam(String),
  Vec(Box<Ty>),
  /// std.tuples.Pair / Triple / TupleN
  Tuple(Vec<Ty>),
}

impl Ty {
  pub fn render(&self) -> String {
    match self {
      Ty::Int => "int".into(),
      Ty::Bool => "bool".into(),
      Ty::Unit => "unit".into(),
      Ty::Str => "Str".into(),
      Ty::Class(_, n, args) => {
        if args.is_empty() {
          n.clone()
        } else {
          format!("{}<{}>", n, args.iter().map(|a| a.render()).collect::<Vec<_>>().join(", "))
        }
      }
      Ty::Fn(ps, r) => format!("({}) -> {}", ps.iter().map(|a| a.render()).collect::<Vec<_>>().join(", "), r.render()),
      Ty::TParam(n) => n.clone(),
      Ty::Vec(t) => format!("Vec<{}>", t.render()),
      Ty::Tuple(ts) => {
        let name = match ts.len() {
          2 => "Pair".to_string(),
          3 => "Triple".to_string(),
          n => format!("Tuple{n}"),
        };
        format!("{}<{}>", name, ts.iter().map(|a| a.render()).collect::<Vec<_>>().join(", "))
      }
    }
  }

  pub fn subst(&self, map: &[(String, Ty)]) -> Ty {
    match self {
      Ty::TParam(n) => map.iter().find(|(k, _)| k == n).map(|(_, v)| v.clone()).unwrap_or_else(|| self.clone()),
      Ty::Class(m, n, a) => Ty::Class(m.clone(), n.clone(), a.iter().map(|x| x.subst(map)).collect()),
      Ty::Fn(p, r) => Ty::Fn(p.iter().map(|x| x.subst(map)).collect(), Box::new(r.subst(map))),
      Ty::Vec(t) => Ty::Vec(Box::new(t.subst(map))),
      Ty::Tuple(t) => Ty::Tuple(t.iter().map(|x| x.subst(map)).collect()),
      _ => self.clone(),
    }
  }

  /// classes (module, name) mentioned, for import generation
  pub fn classes(&self, out: &mut Vec<(Vec<String>, String)>) {
    match self {
      Ty::Class(m, n, a) => {
        out.push((m.clone(), n.clone()));
        a.iter().for_each(|x| x.classes(out));
      }
      Ty::Fn(p, r) => {
        p.iter().for_each(|x| x.classes(out));
        r.classes(out);
      }
      Ty::Vec(t) => t.classes(out),
      Ty::Tuple(ts) => {
        let name = match ts.len() {
          2 => "Pair".to_string(),
          3 => "Triple".to_string(),
          n => format!("Tuple{n}"),
        };
        out.push((vec!["std".into(), "tuples".into()], name));
        ts.iter().for_each(|x| x.classes(out));
      }
      _ => {}
    }
  }
}

#[derive(Clone, Debug)]
pub enum Pat {
  Wild,
  Var(String, Ty),
  Tuple(Vec<Pat>),
  /// struct pattern: (field, binding pattern); `shorthand` when the pattern is Var(field)
  Struct(Vec<(String, Pat)>),
  Variant(String, Vec<Pat>),
  Or(Vec<Pat>),
}

impl Pat {
  pub fn render(&self) -> String {
    match self {
      Pat::Wild => "_".into(),
      Pat::Var(n, _) => n.clone(),
      Pat::Tuple(ps) => format!("({})", ps.iter().map(|p| p.render()).collect::<Vec<_>>().join(", ")),
      Pat::Struct(fs) => format!(
        "{{ {} }}",
        fs.iter()
          .map(|(f, p)| match p {
            Pat::Var(n, _) if n == f => f.clone(),
            _ => format!("{f} as {}", p.render()),
          })
          .collect::<Vec<_>>()
          .join(", ")
      ),
      Pat::Variant(t, ps) => {
        if ps.is_empty() {
          t.clone()
        } else {
          format!("{t}({})", ps.iter().map(|p| p.render()).collect::<Vec<_>>().join(", "))
        }
      }
      Pat::Or(ps) => ps.iter().map(|p| p.render()).collect::<Vec<_>>().join(" | "),
    }
  }
  pub fn binders(&self, out: &mut Vec<(String, Ty)>) {
    match self {
      Pat::Var(n, t) => out.push((n.clone(), t.clone())),
      Pat::Tuple(ps) | Pat::Variant(_, ps) => ps.iter().for_each(|p| p.binders(out)),
      Pat::Struct(fs) => fs.iter().for_each(|(_, p)| p.binders(out)),
      Pat::Or(ps) => {
        if let Some(p) = ps.first() {
          p.binders(out)
        }
      }
      Pat::Wild => {}
    }
  }
  pub fn is_plain_var(&self) -> bool {
    matches!(self, Pat::Var(..))
  }
}

#[derive(Clone, Debug)]
pub struct Expr {
  pub ty: Ty,
  pub kind: EK,
}

#[derive(Clone, Debug)]
pub enum Stmt {
  Let { pat: Pat, annot: Option<Ty>, init: Expr },
  Expr(Expr),
}

#[derive(Clone, Debug)]
pub enum EK {
  Int(i32),
  /// run-time integer the optimiser cannot see through: `"<n>".toInt()`
  OpaqueInt(i32),
  Bool(bool),
  Str(String),
  Var(String),
  This,
  Tuple(Vec<Expr>),
  /// `Class.member<targs>(args)`: static function / constructor call
  StaticCall { module: Vec<String>, class: String, member: String, targs: Vec<Ty>, args: Vec<Expr> },
  /// `Class.member` as a function value
  StaticRef { module: Vec<String>, class: String, member: String },
  MethodCall { recv: Box<Expr>, method: String, targs: Vec<Ty>, args: Vec<Expr> },
  /// `recv.method` as a function value
  MethodRef { recv: Box<Expr>, method: String },
  Field { obj: Box<Expr>, field: String },
  CallValue { callee: Box<Expr>, args: Vec<Expr> },
  Unary(&'static str, Box<Expr>),
  Binary(&'static str, Box<Expr>, Box<Expr>),
  If { cond: Box<Expr>, then: Box<Expr>, els: Box<Expr> },
  IfLet { pat: Pat, scrut: Box<Expr>, then: Box<Expr>, els: Box<Expr> },
  Match { scrut: Box<Expr>, arms: Vec<(Pat, Expr)> },
  Lambda { params: Vec<(String, Ty)>, annotated: bool, body: Box<Expr> },
  Block { stmts: Vec<Stmt>, last: Option<Box<Expr>> },
  /// explicit parentheses (C13 rewrite); transparent otherwise
  Paren(Box<Expr>),
}

fn prec(e: &Expr) -> u8 {
  match &e.kind {
    EK::Binary(op, ..) => match *op {
      "*" | "/" | "%" => 4,
      "+" | "-" | "::" => 5,
      "<" | "<=" | ">" | ">=" | "==" | "!=" => 6,
      "&&" => 7,
      _ => 8,
    },
    EK::Unary(..) => 2,
    EK::If { .. } | EK::IfLet { .. } => 10,
    EK::Match { .. } => 11,
    EK::Lambda { .. } => 12,
    EK::Int(i) if *i < 0 => 2,
    EK::OpaqueInt(_) => 1,
    _ => 1,
  }
}

fn targs_str(t: &[Ty]) -> String {
  if t.is_empty() { String::new() } else { format!("<{}>", t.iter().map(|x| x.render()).collect::<Vec<_>>().join(", ")) }
}

pub fn escape_str(s: &str) -> String {
  let mut o = String::new();
  for c in s.chars() {
    match c {
      '"' => o.push_str("\\\""),
      '\\' => o.push_str("\\\\"),
      '\n' => o.push_str("\\n"),
      '\t' => o.push_str("\\t"),
      c => o.push(c),
    }
  }
  o
}

impl Expr {
  pub fn new(ty: Ty, kind: EK) -> Expr {
    Expr { ty, kind }
  }

  fn wrap(&self, max: u8, ind: usize) -> String {
    let s = self.render(ind);
    if prec(self) > max { format!("({s})") } else { s }
  }

  fn block_of(&self, ind: usize) -> String {
    // render as a block `{ ... }` (if/else branches must be blocks)
    match &self.kind {
      EK::Block { .. } => self.render(ind),
      _ => format!("{{ {} }}", self.render(ind)),
    }
  }

  pub fn render(&self, ind: usize) -> String {
    let pad = "  ".repeat(ind);
    match &self.kind {
      EK::Int(i) => i.to_string(),
      EK::OpaqueInt(i) => format!("\"{i}\".toInt()"),
      EK::Bool(b) => b.to_string(),
      EK::Str(s) => format!("\"{}\"", escape_str(s)),
      EK::Var(n) => n.clone(),
      EK::This => "this".into(),
      EK::Tuple(es) => format!("({})", es.iter().map(|e| e.render(ind)).collect::<Vec<_>>().join(", ")),
      EK::StaticCall { class, member, targs, args, .. } => {
        format!("{class}.{member}{}({})", targs_str(targs), args.iter().map(|e| e.render(ind)).collect::<Vec<_>>().join(", "))
      }
      EK::StaticRef { class, member, .. } => format!("{class}.{member}"),
      EK::MethodCall { recv, method, targs, args } => {
        format!("{}.{method}{}({})", recv.wrap(1, ind), targs_str(targs), args.iter().map(|e| e.render(ind)).collect::<Vec<_>>().join(", "))
      }
      EK::MethodRef { recv, method } => format!("{}.{method}", recv.wrap(1, ind)),
      EK::Field { obj, field } => format!("{}.{field}", obj.wrap(1, ind)),
      EK::CallValue { callee, args } => format!("{}({})", callee.wrap(1, ind), args.iter().map(|e| e.render(ind)).collect::<Vec<_>>().join(", ")),
      EK::Unary(op, e) => format!("{op}{}", e.wrap(1, ind)),
      EK::Binary(op, a, b) => {
        let p = prec(self);
        // left operand: same level allowed (left-assoc); right operand: strictly tighter.
        // `a.b < c` would be read as type arguments: parenthesise a member access on the left of `<`
        let left = if *op == "<" && matches!(a.kind, EK::Field { .. } | EK::MethodRef { .. } | EK::StaticRef { .. }) { format!("({})", a.render(ind)) } else { a.wrap(p, ind) };
        format!("{left} {op} {}", b.wrap(p - 1, ind))
      }
      EK::If { cond, then, els } => {
        let e = match &els.kind {
          EK::If { .. } | EK::IfLet { .. } => els.render(ind),
          _ => els.block_of(ind),
        };
        format!("if {} {} else {}", cond.render(ind), then.block_of(ind), e)
      }
      EK::IfLet { pat, scrut, then, els } => {
        format!("if let {} = {} {} else {}", pat.render(), scrut.render(ind), then.block_of(ind), els.block_of(ind))
      }
      EK::Match { scrut, arms } => {
        let mut s = format!("match {} {{\n", scrut.render(ind));
        for (p, e) in arms {
          s.push_str(&format!("{pad}  {} -> {},\n", p.render(), e.render(ind + 1)));
        }
        s.push_str(&format!("{pad}}}"));
        s
      }
      EK::Lambda { params, annotated, body } => {
        let ps = params.iter().map(|(n, t)| if *annotated { format!("{n}: {}", t.render()) } else { n.clone() }).collect::<Vec<_>>().join(", ");
        format!("({ps}) -> {}", body.render(ind))
      }
      EK::Block { stmts, last } => {
        if stmts.is_empty() && last.is_none() {
          return "{  }".into();
        }
        let mut s = String::from("{\n");
        for st in stmts {
          match st {
            Stmt::Let { pat, annot, init } => {
              s.push_str(&format!("{pad}  let {}{} = {};\n", pat.render(), annot.as_ref().map(|t| format!(": {}", t.render())).unwrap_or_default(), init.render(ind + 1)));
            }
            Stmt::Expr(e) => s.push_str(&format!("{pad}  {};\n", e.render(ind + 1))),
          }
        }
        if let Some(e) = last {
          s.push_str(&format!("{pad}  {}\n", e.render(ind + 1)));
        }
        s.push_str(&format!("{pad}}}"));
        s
      }
      EK::Paren(e) => format!("({})", e.render(ind)),
    }
  }
}

#[derive(Clone, Debug)]
pub struct TParamDef {
  pub name: String,
  /// bound: an interface instantiated, e.g. Cmp<T>
  pub bound: Option<Ty>,
}

#[derive(Clone, Debug)]
pub struct Member {
  pub name: String,
  pub is_method: bool,
  pub is_public: bool,
  pub tparams: Vec<TParamDef>,
  pub params: Vec<(String, Ty)>,
  pub ret: Ty,
  /// None for interface member declarations
  pub body: Option<Expr>,
}

#[derive(Clone, Debug)]
pub enum TypeDef {
  None,
  Struct(Vec<(String, Ty, bool)>),
  Enum(Vec<(String, Vec<Ty>)>),
}

#[derive(Clone, Debug)]
pub struct Class {
  pub name: String,
  pub is_interface: bool,
  pub private: bool,
  pub tparams: Vec<TParamDef>,
  pub typedef: TypeDef,
  pub implements: Vec<Ty>,
  pub members: Vec<Member>,
}

#[derive(Clone, Debug)]
pub struct ModuleIr {
  pub path: Vec<String>,
  pub classes: Vec<Class>,
}

#[derive(Clone, Debug)]
pub struct ProgramIr {
  pub modules: Vec<ModuleIr>,
  /// module path of the entry (contains class Main with function main(): unit)
  pub entry: Vec<String>,
}

fn tparams_str(tps: &[TParamDef]) -> String {
  if tps.is_empty() {
    return String::new();
  }
  format!(
    "<{}>",
    tps.iter().map(|t| match &t.bound { Some(b) => format!("{}: {}", t.name, b.render()), None => t.name.clone() }).collect::<Vec<_>>().join(", ")
  )
}

impl Member {
  pub fn render(&self) -> String {
    let head = format!(
      "  {}{} {}{}({}): {}",
      if self.is_public { "" } else { "private " },
      if self.is_method { "method" } else { "function" },
      if self.tparams.is_empty() { String::new() } else { format!("{} ", tparams_str(&self.tparams)) },
      self.name,
      self.params.iter().map(|(n, t)| format!("{n}: {}", t.render())).collect::<Vec<_>>().join(", "),
      self.ret.render()
    );
    match &self.body {
      Some(b) => format!("{head} =\n    {}\n", b.render(2)),
      None => format!("{head}\n"),
    }
  }
}

impl Class {
  pub fn render(&self) -> String {
    let mut s = String::new();
    if self.private {
      s.push_str("private ");
    }
    s.push_str(if self.is_interface { "interface " } else { "class " });
    s.push_str(&self.name);
    s.push_str(&tparams_str(&self.tparams));
    match &self.typedef {
      TypeDef::None => {}
      TypeDef::Struct(fs) => {
        s.push_str(&format!("({})", fs.iter().map(|(n, t, public)| format!("{}val {n}: {}", if *public { "" } else { "private " }, t.render())).collect::<Vec<_>>().join(", ")));
      }
      TypeDef::Enum(vs) => {
        s.push_str(&format!(
          "({})",
          vs.iter().map(|(n, ts)| if ts.is_empty() { n.clone() } else { format!("{n}({})", ts.iter().map(|t| t.render()).collect::<Vec<_>>().join(", ")) }).collect::<Vec<_>>().join(", ")
        ));
      }
    }
    if !self.implements.is_empty() {
      s.push_str(&format!(" : {}", self.implements.iter().map(|t| t.render()).collect::<Vec<_>>().join(", ")));
    }
    s.push_str(" {\n");
    for (i, m) in self.members.iter().enumerate() {
      if i > 0 {
        s.push('\n');
      }
      s.push_str(&m.render());
    }
    s.push_str("}\n");
    s
  }
}

impl ModuleIr {
  /// imports are derived: every class mentioned that lives in another module
  pub fn render(&self) -> String {
    let mut used: Vec<(Vec<String>, String)> = vec![];
    for c in &self.classes {
      collect_class_refs(c, &mut used);
    }
    used.sort();
    used.dedup();
    let mut by_mod: std::collections::BTreeMap<Vec<String>, Vec<String>> = Default::default();
    for (m, n) in used {
      if m != self.path && !m.is_empty() {
        by_mod.entry(m).or_default().push(n);
      }
    }
    let mut s = String::new();
    for (m, names) in by_mod {
      s.push_str(&format!("import {{ {} }} from {};\n", names.join(", "), m.join(".")));
    }
    if !s.is_empty() {
      s.push('\n');
    }
    for (i, c) in self.classes.iter().enumerate() {
      if i > 0 {
        s.push('\n');
      }
      s.push_str(&c.render());
    }
    s
  }
}

fn collect_class_refs(c: &Class, out: &mut Vec<(Vec<String>, String)>) {
  for t in &c.tparams {
    if let Some(b) = &t.bound {
      b.classes(out);
    }
  }
  match &c.typedef {
    TypeDef::Struct(fs) => fs.iter().for_each(|(_, t, _)| t.classes(out)),
    TypeDef::Enum(vs) => vs.iter().for_each(|(_, ts)| ts.iter().for_each(|t| t.classes(out))),
    TypeDef::None => {}
  }
  c.implements.iter().for_each(|t| t.classes(out));
  for m in &c.members {
    for t in &m.tparams {
      if let Some(b) = &t.bound {
        b.classes(out);
      }
    }
    m.params.iter().for_each(|(_, t)| t.classes(out));
    m.ret.classes(out);
    if let Some(b) = &m.body {
      collect_expr_refs(b, out);
    }
  }
}

pub fn collect_expr_refs(e: &Expr, out: &mut Vec<(Vec<String>, String)>) {
  match &e.kind {
    EK::Tuple(es) => es.iter().for_each(|x| collect_expr_refs(x, out)),
    EK::StaticCall { module, class, targs, args, .. } => {
      out.push((module.clone(), class.clone()));
      targs.iter().for_each(|t| t.classes(out));
      args.iter().for_each(|x| collect_expr_refs(x, out));
    }
    EK::StaticRef { module, class, .. } => out.push((module.clone(), class.clone())),
    EK::MethodCall { recv, targs, args, .. } => {
      collect_expr_refs(recv, out);
      targs.iter().for_each(|t| t.classes(out));
      args.iter().for_each(|x| collect_expr_refs(x, out));
    }
    EK::MethodRef { recv, .. } => collect_expr_refs(recv, out),
    EK::Field { obj, .. } => collect_expr_refs(obj, out),
    EK::CallValue { callee, args } => {
      collect_expr_refs(callee, out);
      args.iter().for_each(|x| collect_expr_refs(x, out));
    }
    EK::Unary(_, x) | EK::Paren(x) => collect_expr_refs(x, out),
    EK::Binary(_, a, b) => {
      collect_expr_refs(a, out);
      collect_expr_refs(b, out);
    }
    EK::If { cond, then, els } => {
      collect_expr_refs(cond, out);
      collect_expr_refs(then, out);
      collect_expr_refs(els, out);
    }
    EK::IfLet { scrut, then, els, .. } => {
      collect_expr_refs(scrut, out);
      collect_expr_refs(then, out);
      collect_expr_refs(els, out);
    }
    EK::Match { scrut, arms } => {
      collect_expr_refs(scrut, out);
      arms.iter().for_each(|(_, x)| collect_expr_refs(x, out));
    }
    EK::Lambda { params, annotated, body } => {
      if *annotated {
        params.iter().for_each(|(_, t)| t.classes(out));
      }
      collect_expr_refs(body, out);
    }
    EK::Block { stmts, last } => {
      for s in stmts {
        match s {
          Stmt::Let { annot, init, .. } => {
            if let Some(t) = annot {
              t.classes(out);
            }
            collect_expr_refs(init, out);
          }
          Stmt::Expr(x) => collect_expr_refs(x, out),
        }
      }
      if let Some(x) = last {
        collect_expr_refs(x, out);
      }
    }
    _ => {}
  }
}

impl ProgramIr {
  pub fn render(&self) -> Vec<(Vec<String>, String)> {
    self.modules.iter().map(|m| (m.path.clone(), m.render())).collect()
  }
}
