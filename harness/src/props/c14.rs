//! C14 – source positions are faithful to the text.

use super::fmt_common::*;
use crate::engine::{Outcome, Params, Prop, Tape, Tier, fnv};
use crate::model::astwalk::{Node, walk_module};
use crate::model::front;
use crate::model::toks::{Kind, line_lengths, tokenize};
use samlang_ast::Location;
use serde_json::{Value, json};
use std::collections::HashMap;

pub struct C14;

type Span = (u32, u32, u32, u32);

fn span(l: &Location) -> Span {
  (l.start.0, l.start.1, l.end.0, l.end.1)
}

/// Part B of the property: the positions the language server *returns* (definition and reference
/// results, hover ranges, folding ranges) judged against the text the server currently holds.
/// `shift` = (module index, n): the server is started with n comment lines in front of that module
/// and then updated to the real text, so that a result computed from a stale tree is displaced.
pub fn lsp_results(mods: &super::run_common::Mods, shift: Option<(usize, usize)>, max_queries: usize, out: &mut Outcome) {
  use crate::engine::guard;
  use samlang_ast::Position;
  use samlang_services::query;
  let mut initial = mods.clone();
  if let Some((k, n)) = shift
    && k < initial.len()
  {
    initial[k].1 = format!("{}{}", "// pad\n".repeat(n), initial[k].1);
  }
  let mut srv = match super::c15::server_for(&initial) {
    Ok(s) => s,
    Err(_) => {
      out.label("lsp:server-panics-on-start(C11)");
      return;
    }
  };
  if let Some((k, _)) = shift
    && k < mods.len()
  {
    let mr = srv.mrs[&mods[k].0.join(".")];
    let text = mods[k].1.clone();
    if guard(std::panic::AssertUnwindSafe(|| srv.state.update(vec![(mr, text)]))).is_err() {
      out.label("lsp:server-panics-on-update(C11)");
      return;
    }
    out.label("lsp:queried-after-displacing-update");
  }
  // the texts the server holds, by module
  struct Doc {
    name: String,
    text: String,
    lines: Vec<u32>,
    offs: Vec<usize>,
  }
  let docs: HashMap<samlang_heap::ModuleReference, Doc> = srv
    .state
    .string_sources
    .iter()
    .map(|(mr, text)| (*mr, Doc { name: mr.pretty_print(&srv.state.heap), text: text.clone(), lines: line_lengths(text), offs: line_offsets(text) }))
    .collect();
  // a returned location: known module, inside that module's text; gives back its text slice
  let judge = |l: &Location, what: &str, out: &mut Outcome| -> Option<String> {
    let Some(d) = docs.get(&l.module_reference) else {
      out.fail(format!("lsp-location/unknown-module/{what}"), format!("{what} result {} names a module the server holds no text for", loc_str(l)));
      return None;
    };
    if let Some(v) = loc_in_doc(l, &d.lines) {
      out.fail(format!("lsp-location/{v}/{what}"), format!("{what} result {} lies outside module {} ({} lines)\n{}", loc_str(l), d.name, d.lines.len(), short(&d.text, 600)));
      return None;
    }
    match slice(&d.text, &d.offs, l) {
      Some(s) => Some(s.to_string()),
      None => {
        out.fail(format!("lsp-location/not-on-character-boundary/{what}"), format!("{what} result {} of module {} splits a character", loc_str(l), d.name));
        None
      }
    }
  };
  let mut queries = 0usize;
  for (name, text) in mods {
    let mr = srv.mrs[&name.join(".")];
    let toks: Vec<_> = tokenize(text).into_iter().filter(|t| matches!(t.kind, Kind::Upper | Kind::Lower)).collect();
    let stride = (toks.len() / max_queries.max(1)).max(1);
    for (ti, t) in toks.iter().enumerate() {
      if ti % stride != 0 || t.end_line != t.line {
        continue;
      }
      queries += 1;
      // first or last character of the identifier, alternating
      let col = if ti % 2 == 0 { t.col } else { t.end_col.saturating_sub(1).max(t.col) };
      let pos = Position(t.line, col);
      let class = if t.kind == Kind::Upper { "upper" } else { "lower" };
      // find references: every result spells the queried name at its start, results nest or are disjoint
      match guard(|| query::all_references(&srv.state, &mr, pos)) {
        Err(_) => out.label("lsp:query-panics(C11)"),
        Ok(refs) => {
          if !refs.is_empty() {
            out.label(format!("lsp:references-nonempty:{class}"));
          }
          let mut own: Vec<Span> = vec![];
          for r in &refs {
            let Some(s) = judge(r, "reference", out) else { continue };
            let exact = s == t.text;
            // the only construct a reference may cover beyond the name is a type reference with its type arguments
            let prefix = {
              let toks: Vec<_> = tokenize(&s).into_iter().filter(|x| !x.is_comment()).collect();
              toks.len() >= 4 && toks[0].text == t.text && toks[1].text == "<" && toks[toks.len() - 1].text == ">"
            };
            if !exact && !prefix {
              out.fail(
                format!("lsp-location/reference-does-not-spell-name/{class}"),
                format!("find-references on `{}` at {}:{} of {} returned {} in {} which spells {:?}\n{}", t.text, t.line + 1, col + 1, name.join("."), loc_str(r), docs[&r.module_reference].name, short(&s, 80), short(text, 600)),
              );
            }
            out.label(if exact { "lsp:reference-spells-name-exactly" } else { "lsp:reference-starts-with-name" });
            if r.module_reference == mr {
              own.push(span(r));
            }
          }
          own.sort();
          for w in own.windows(2) {
            let (a, b) = (w[0], w[1]);
            let disjoint = (a.2, a.3) <= (b.0, b.1);
            let nested = (b.2, b.3) <= (a.2, a.3);
            if !disjoint && !nested {
              out.fail(format!("lsp-location/references-overlap/{class}"), format!("find-references on `{}` returned partially overlapping ranges {:?} and {:?}\n{}", t.text, a, b, short(text, 600)));
            }
          }
          if !refs.is_empty() {
            let hit = own.iter().any(|s| (s.0, s.1) <= (pos.0, pos.1) && (pos.0, pos.1) <= (s.2, s.3));
            out.label(if hit { "lsp:references-include-queried-occurrence" } else { "lsp:references-without-queried-occurrence" });
          }
        }
      }
      // go to definition: inside its module; a range of the name's length must spell the name, a larger one must contain it
      match guard(|| query::definition_location(&srv.state, &mr, pos)) {
        Err(_) => out.label("lsp:query-panics(C11)"),
        Ok(None) => {}
        Ok(Some(d)) => {
          out.label(format!("lsp:definition-found:{class}"));
          if let Some(s) = judge(&d, "definition", out) {
            let has_name = tokenize(&s).iter().any(|x| x.text == t.text);
            if !has_name {
              out.fail(
                format!("lsp-location/definition-does-not-contain-name/{class}"),
                format!("go-to-definition on `{}` at {}:{} of {} returned {} in {} which spells {:?}\n{}", t.text, t.line + 1, col + 1, name.join("."), loc_str(&d), docs[&d.module_reference].name, short(&s, 120), short(text, 600)),
              );
            }
          }
        }
      }
      // hover: the reported range is inside the document and contains the queried position
      match guard(|| query::hover(&srv.state, &mr, pos).map(|h| h.location)) {
        Err(_) => out.label("lsp:query-panics(C11)"),
        Ok(None) => {}
        Ok(Some(h)) => {
          out.label("lsp:hover-found");
          if judge(&h, "hover", out).is_some() && (h.module_reference != mr || !(h.start <= pos && pos <= h.end)) {
            out.fail("lsp-location/hover-range-misses-position".to_string(), format!("hover at {}:{} of {} reports range {}\n{}", t.line + 1, col + 1, name.join("."), loc_str(&h), short(text, 600)));
          }
        }
      }
    }
    // folding ranges: inside the document, nested or disjoint, each starts at a declaration keyword
    if let Ok(Some(folds)) = guard(|| query::folding_ranges(&srv.state, &mr)) {
      let all_toks = tokenize(text);
      let by_start: HashMap<(u32, u32), &str> = all_toks.iter().filter(|t| !t.is_comment()).map(|t| ((t.line, t.col), t.text.as_str())).collect();
      let mut spans: Vec<Span> = vec![];
      for f in &folds {
        if f.module_reference != mr {
          out.fail("lsp-location/folding-range-of-other-module".to_string(), format!("folding range {} of {} names another module", loc_str(f), name.join(".")));
          continue;
        }
        if judge(f, "folding-range", out).is_none() {
          continue;
        }
        match by_start.get(&(f.start.0, f.start.1)) {
          Some(k) if ["private", "class", "interface", "function", "method"].contains(k) => {}
          other => out.fail("lsp-location/folding-range-start".to_string(), format!("folding range {} of {} starts at token {:?}\n{}", loc_str(f), name.join("."), other, context(text, f))),
        }
        spans.push(span(f));
      }
      out.label(format!("lsp:folding-ranges:{}", if spans.is_empty() { "0" } else if spans.len() < 4 { "1-3" } else { ">=4" }));
      spans.sort_by_key(|s| ((s.0, s.1), std::cmp::Reverse((s.2, s.3))));
      for i in 0..spans.len() {
        for j in i + 1..spans.len() {
          let (a, b) = (spans[i], spans[j]);
          let disjoint = (a.2, a.3) <= (b.0, b.1);
          let nested = (a.0, a.1) <= (b.0, b.1) && (b.2, b.3) <= (a.2, a.3);
          if !disjoint && !nested {
            out.fail("lsp-location/folding-ranges-overlap".to_string(), format!("folding ranges {:?} and {:?} of {} partially overlap\n{}", a, b, name.join("."), short(text, 600)));
          }
        }
      }
    }
  }
  out.label(format!("lsp:queries:{}", if queries == 0 { "0" } else if queries < 20 { "1-19" } else { ">=20" }));
}

pub fn loc_str(l: &Location) -> String {
  format!("{}:{}-{}:{}", l.start.0 + 1, l.start.1 + 1, l.end.0 + 1, l.end.1 + 1)
}

/// Location well-formedness against the document. Returns a violation class or None.
pub fn loc_in_doc(l: &Location, lines: &[u32]) -> Option<&'static str> {
  if l.start > l.end {
    return Some("start-after-end");
  }
  for (p, which) in [(l.start, "start"), (l.end, "end")] {
    if (p.0 as usize) >= lines.len() {
      return Some(if which == "start" { "start-line-outside-document" } else { "end-line-outside-document" });
    }
    if p.1 > lines[p.0 as usize] {
      return Some(if which == "start" { "start-column-beyond-line" } else { "end-column-beyond-line" });
    }
  }
  None
}

pub fn slice<'a>(text: &'a str, line_offsets: &[usize], l: &Location) -> Option<&'a str> {
  let s = line_offsets.get(l.start.0 as usize)? + l.start.1 as usize;
  let e = line_offsets.get(l.end.0 as usize)? + l.end.1 as usize;
  text.get(s..e)
}

pub fn line_offsets(text: &str) -> Vec<usize> {
  let mut v = vec![0];
  for (i, b) in text.bytes().enumerate() {
    if b == b'\n' {
      v.push(i + 1);
    }
  }
  v
}

pub fn check_nodes(text: &str, nodes: &[Node], out: &mut Outcome) -> usize {
  let lines = line_lengths(text);
  let offs = line_offsets(text);
  let mut checked = 0;
  let mut last_in_list: HashMap<usize, usize> = HashMap::new();
  for (i, n) in nodes.iter().enumerate() {
    checked += 1;
    if let Some(v) = loc_in_doc(&n.loc, &lines) {
      out.fail(format!("ast-location/{v}/{}", n.kind), format!("{} node has location {} in a document of {} lines", n.kind, loc_str(&n.loc), lines.len()));
      continue;
    }
    if let Some(p) = n.parent {
      let pl = &nodes[p].loc;
      if !(pl.start <= n.loc.start && n.loc.end <= pl.end) {
        out.fail(
          format!("ast-location/parent-does-not-enclose/{}>{}", nodes[p].kind, n.kind),
          format!("{} at {} is not enclosed by its parent {} at {}\n{}", n.kind, loc_str(&n.loc), nodes[p].kind, loc_str(pl), context(text, &n.loc)),
        );
      }
    }
    if n.kind == "import-module" {
      // the location must spell the dotted path (whitespace / comments between the parts allowed)
      let got = slice(text, &offs, &n.loc);
      let spelled: Option<String> = got.map(|g| tokenize(g).iter().filter(|t| !t.is_comment()).map(|t| t.text.clone()).collect::<Vec<_>>().join(""));
      if spelled.as_deref() != n.name.as_deref() {
        out.fail(
          "ast-location/name-slice-mismatch/import-module".to_string(),
          format!("import of module `{}` has module location {} which spells {:?}\n{}", n.name.as_deref().unwrap_or(""), loc_str(&n.loc), got, context(text, &n.loc)),
        );
      }
    } else if let Some(name) = &n.name {
      let got = slice(text, &offs, &n.loc);
      if got != Some(name.as_str()) {
        out.fail(
          format!("ast-location/name-slice-mismatch/{}", n.kind),
          format!("{} `{}` has location {} which spells {:?}\n{}", n.kind, name, loc_str(&n.loc), got, context(text, &n.loc)),
        );
      }
    }
    if let Some(l) = n.list {
      if let Some(prev) = last_in_list.get(&l) {
        let pl = &nodes[*prev].loc;
        if pl.end > n.loc.start {
          out.fail(
            format!("ast-location/siblings-overlap/{}~{}", nodes[*prev].kind, n.kind),
            format!("{} at {} overlaps or precedes its earlier sibling {} at {}\n{}", n.kind, loc_str(&n.loc), nodes[*prev].kind, loc_str(pl), context(text, &n.loc)),
          );
        }
      }
      last_in_list.insert(l, i);
    }
  }
  checked
}

pub fn context(text: &str, l: &Location) -> String {
  let lines: Vec<&str> = text.split('\n').collect();
  let lo = (l.start.0 as usize).saturating_sub(1).min(lines.len());
  let hi = (l.start.0 as usize + 2).min(lines.len());
  lines[lo..hi].iter().map(|s| short(s, 200)).collect::<Vec<_>>().join("\n")
}

impl Prop for C14 {
  fn id(&self) -> &'static str {
    "C14"
  }
  fn rule(&self) -> String {
    "syntactically valid modules (G5) with adversarial layout (tabs, CRLF, blank lines, tight punctuation, multi-line block comments, strings containing // and /*, non-ASCII in strings and comments, very long lines) plus every tests/*.sam and std/*.sam; oracle for every location in the parsed tree: inside the document (line < #lines, byte column <= line length), start <= end, enclosed by the parent's location, elements of one syntactic list ordered and disjoint, and for every name the text slice at its location equals the name; the harness's own tokenizer supplies the ground-truth positions of identifier tokens (every identifier token must be the location of some name node and vice versa); also every syntax-error location when the input is a mutilated variant; part B (results of the language server, judged against the text the server currently holds): 1 case in 14 is an accepted multi-module G1 program, and a sixth of the valid G5 texts is loaded as well, into a ServerState - in half of them the server is started with 1-5 comment lines in front of one module and then updated to the real text, so that a result computed from a stale tree is displaced; at up to 120 identifier tokens (first / last character) find-references, go-to-definition and hover are queried and every returned location must name a module the server holds, lie inside that module's text on character boundaries with start <= end; a reference must spell the queried name (exactly, or - for a type reference - the name followed by its type arguments `Name<T>`), references of one query must nest or be disjoint, a definition range must contain the name as a token, a hover range must contain the queried position; folding ranges must lie inside the document, start at a declaration keyword and nest or be disjoint; non-trivial = >=3 lines and a multi-line comment, CRLF, tab or non-ASCII byte precedes some identifier; distinct = hash of the text".into()
  }
  fn assumptions(&self) -> Vec<String> {
    vec![
      "columns are byte offsets within the line (the lexer counts bytes); a trailing \\r belongs to the line".into(),
      "the location of a class's type definition deliberately starts at the type-parameter list (source_parser.rs parse_class); type parameters and type definition are therefore not treated as list siblings".into(),
    ]
  }
  fn params(&self, tier: Tier) -> Params {
    match tier {
      Tier::Quick => Params { cases: 40_000, tape_len: 1500, workers: 14, stack_mb: 8, worker_timeout_s: 900, shrink_iters: 4000 },
      Tier::Thorough => Params { cases: 800_000, tape_len: 5000, workers: 16, stack_mb: 8, worker_timeout_s: 4 * 3600, shrink_iters: 4000 },
    }
  }
  fn generate(&self, t: &mut Tape, tier: Tier) -> Value {
    // part B hosts: accepted multi-module programs (G1) queried through the language server
    if t.bool(1, 14) {
      let mut cfg = super::behav::cfg_for("C14", tier);
      cfg.force_hof = t.bool(1, 3);
      let (ir, feats) = crate::generators::progen::gen_program(t, cfg);
      let mods = ir.render();
      let shift = if t.bool(1, 2) { json!([t.choose(mods.len().max(1)), 1 + t.choose(5)]) } else { Value::Null };
      let mut v = super::run_common::art_of(&mods, &ir.entry, &feats);
      v["lsp"] = json!(true);
      v["shift"] = shift;
      return v;
    }
    let mut v = gen_text(t, tier, Profile::Layout);
    // a fraction of the cases is truncated / mutilated so that diagnostics locations are exercised
    if t.bool(1, 5) {
      let text = v["text"].as_str().unwrap().to_string();
      let mut cut = t.choose(text.len().max(1));
      while !text.is_char_boundary(cut) {
        cut -= 1;
      }
      v["text"] = json!(text[..cut].to_string());
      v["mutilated"] = json!(true);
    }
    v
  }
  fn fixed_cases(&self, _tier: Tier) -> Vec<Value> {
    repo_fixed_cases(&[100])
  }
  fn check(&self, art: &Value) -> Outcome {
    let mut out = Outcome::default();
    if art["lsp"].as_bool() == Some(true) {
      let (mods, _) = super::run_common::mods_of(art);
      let shift = art["shift"].as_array().map(|a| (a[0].as_u64().unwrap_or(0) as usize, a[1].as_u64().unwrap_or(1) as usize));
      out.key = fnv(format!("{}{}", super::run_common::describe(&mods), art["shift"]).as_bytes());
      out.label("host:G1-program-in-language-server");
      lsp_results(&mods, shift, 120, &mut out);
      out.nontrivial = mods.len() >= 2 || mods.iter().any(|(_, t)| t.lines().count() >= 10);
      out.sample = Some(json!({"modules": mods.len(), "shift": art["shift"], "text": short(&super::run_common::describe(&mods), 400)}));
      return out;
    }
    let text = art["text"].as_str().unwrap_or("");
    out.key = fnv(text.as_bytes());
    let p0 = match front::parse(text, &["Test"]) {
      Ok(p) => p,
      Err(_) => return Outcome::discarded("parser-panics-on-input(C05)"),
    };
    let lines = line_lengths(text);
    // diagnostics locations (any input)
    for (loc, msg) in &p0.syntax_errors {
      if let Some(v) = loc_in_doc(loc, &lines) {
        out.fail(
          format!("diagnostic-location/{v}/{}", front::syntax_error_class(msg)),
          format!("syntax error `{msg}` reported at {} in a document of {} lines (last line has {} bytes)\n{}", loc_str(loc), lines.len(), lines.last().unwrap_or(&0), short(text, 800)),
        );
      }
    }
    out.label(if p0.syntax_errors.is_empty() { "input:valid" } else { "input:with-syntax-errors" });
    // checker diagnostics: primary and reference locations
    {
      let mut sources = HashMap::new();
      sources.insert(p0.mr, p0.module.clone());
      let mut es = samlang_errors::ErrorSet::new();
      if crate::engine::guard(|| samlang_checker::type_check_sources(&sources, &mut es)).is_ok() {
        let texts: HashMap<samlang_heap::ModuleReference, String> = HashMap::from([(p0.mr, text.to_string())]);
        let mut n = 0;
        for e in es.errors() {
          if e.location.module_reference != p0.mr {
            continue;
          }
          n += 1;
          let class = crate::engine::msg_class(&format!("{:?}", std::mem::discriminant(&e.detail)));
          if let Some(v) = loc_in_doc(&e.location, &lines) {
            out.fail(format!("diagnostic-location/{v}/checker"), format!("checker diagnostic ({class}) at {} in a document of {} lines\n{}", loc_str(&e.location), lines.len(), short(text, 800)));
          }
          if let Ok(ide) = crate::engine::guard(|| e.to_ide_format(&p0.heap, &texts)) {
            for r in &ide.reference_locs {
              if r.module_reference == p0.mr
                && let Some(v) = loc_in_doc(r, &lines)
              {
                out.fail(format!("diagnostic-location/{v}/checker-reference"), format!("reference location {} of a checker diagnostic is outside the document\n{}", loc_str(r), short(text, 800)));
              }
            }
          }
        }
        if n > 0 {
          out.label("diagnostics:checker>=1");
        }
      }
    }
    if p0.syntax_errors.is_empty() {
      let nodes = walk_module(&p0.heap, &p0.module);
      let n = check_nodes(text, &nodes, &mut out);
      out.label(format!("locations:{}", if n < 50 { "<50" } else if n < 200 { "50-199" } else { ">=200" }));
      // ground truth: identifier tokens <-> name nodes
      let toks = tokenize(text);
      let mut name_locs: HashMap<(u32, u32), &Node> = HashMap::new();
      for nd in nodes.iter().filter(|n| n.name.is_some() && n.kind != "import-module") {
        name_locs.insert((nd.loc.start.0, nd.loc.start.1), nd);
      }
      for t in toks.iter().filter(|t| matches!(t.kind, Kind::Upper | Kind::Lower) || (t.kind == Kind::Keyword && t.text == "this")) {
        match name_locs.get(&(t.line, t.col)) {
          Some(nd) => {
            if (nd.loc.end.0, nd.loc.end.1) != (t.end_line, t.end_col) || nd.name.as_deref() != Some(t.text.as_str()) {
              out.fail(
                format!("ast-location/identifier-token-mismatch/{}", nd.kind),
                format!("identifier token `{}` at {}:{}-{}:{} vs name node `{}` at {}", t.text, t.line + 1, t.col + 1, t.end_line + 1, t.end_col + 1, nd.name.as_deref().unwrap_or(""), loc_str(&nd.loc)),
              );
            }
          }
          None => {
            // module path components of imports have no node of their own
            out.label("ident-token-without-name-node");
          }
        }
      }
      // ground truth for construct boundaries: the token that starts / ends a node
      let by_start: HashMap<(u32, u32), &crate::model::toks::Tok> = toks.iter().filter(|t| !t.is_comment()).map(|t| ((t.line, t.col), t)).collect();
      let by_end: HashMap<(u32, u32), &crate::model::toks::Tok> = toks.iter().filter(|t| !t.is_comment()).map(|t| ((t.end_line, t.end_col), t)).collect();
      for nd in nodes.iter() {
        let (starts, ends): (&[&str], &[&str]) = match nd.kind {
          "class" | "interface" => (&["private", "class", "interface"], &["}"]),
          "member" => (&["private", "function", "method"], &[]),
          "let" => (&["let"], &[";"]),
          "if" => (&["if"], &["}"]),
          "match" => (&["match"], &["}"]),
          "block" | "pat-object" | "members" => (&["{"], &["}"]),
          "import" => (&["import"], &[]),
          "lambda" => (&["("], &[]),
          "tuple" | "expr-list" | "args" | "params" | "pat-tuple" | "lambda-params" | "annot-fn-params" | "variant-types" => (&["("], &[")"]),
          "targs" | "tparams" => (&["<"], &[">"]),
          "typedef" => (&["<", "("], &[")"]),
          "unary" => (&["!", "-"], &[]),
          "annot-fn" => (&["("], &[]),
          "extends" => (&[":"], &[]),
          "pat-wildcard" => (&["_"], &["_"]),
          _ => (&[], &[]),
        };
        if !starts.is_empty() {
          match by_start.get(&(nd.loc.start.0, nd.loc.start.1)) {
            Some(t) if starts.contains(&t.text.as_str()) => {}
            other => out.fail(
              format!("ast-location/boundary-token-mismatch/{}/start", nd.kind),
              format!("{} at {} starts at token {:?}, expected one of {:?}\n{}", nd.kind, loc_str(&nd.loc), other.map(|t| t.text.clone()), starts, context(text, &nd.loc)),
            ),
          }
        }
        if !ends.is_empty() {
          match by_end.get(&(nd.loc.end.0, nd.loc.end.1)) {
            Some(t) if ends.contains(&t.text.as_str()) => {}
            other => out.fail(
              format!("ast-location/boundary-token-mismatch/{}/end", nd.kind),
              format!("{} at {} ends at token {:?}, expected one of {:?}\n{}", nd.kind, loc_str(&nd.loc), other.map(|t| t.text.clone()), ends, context(text, &nd.loc)),
            ),
          }
        }
        if nd.kind == "literal" {
          let ok = match (by_start.get(&(nd.loc.start.0, nd.loc.start.1)), by_end.get(&(nd.loc.end.0, nd.loc.end.1))) {
            (Some(a), Some(b)) => a.off == b.off && (matches!(a.kind, Kind::Int | Kind::Str) || a.text == "true" || a.text == "false"),
            _ => false,
          };
          if !ok {
            out.fail("ast-location/boundary-token-mismatch/literal".to_string(), format!("literal at {} does not cover exactly one literal token\n{}", loc_str(&nd.loc), context(text, &nd.loc)));
          }
        }
      }
      if out.key % 6 == 0 && art["mutilated"].as_bool() != Some(true) {
        out.label("host:G5-text-in-language-server");
        let shift = if out.key % 12 == 0 { Some((0, 1 + (out.key % 5) as usize)) } else { None };
        lsp_results(&vec![(vec!["Test".to_string()], text.to_string())], shift, 60, &mut out);
      }
      let interesting_layout = text.contains("\r\n") || text.contains('\t') || !text.is_ascii() || toks.iter().any(|t| t.is_comment() && t.end_line > t.line);
      out.nontrivial = lines.len() >= 3 && interesting_layout;
      for (flag, name) in [(text.contains("\r\n"), "layout:CRLF"), (text.contains('\t'), "layout:tab"), (!text.is_ascii(), "layout:non-ascii"), (toks.iter().any(|t| t.is_comment() && t.end_line > t.line), "layout:multi-line-comment"), (lines.iter().any(|l| *l > 1000), "layout:line>1000B")] {
        if flag {
          out.label(name);
        }
      }
    }
    out.sample = Some(json!({"text": short(text, 500)}));
    out
  }
}
