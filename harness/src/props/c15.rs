//! C15 – go-to-definition, find-references and rename agree with the language's scoping rules.
//! Ground truth: the generator's programs have unique local names per member (U); the queried
//! document (R) is either U itself or U with every binder renamed after its scope level, so that
//! sibling scopes reuse names. Occurrence i of R resolves to the binder that occurrence i of U names.

use super::run_common::*;
use crate::engine::{Outcome, Params, Prop, Tape, Tier, fnv, guard, panic_sig};
use crate::generators::progen::gen_program;
use crate::generators::rewrites::apply;
use crate::model::astwalk::{Node, walk_module};
use crate::model::interp::End;
use crate::model::toks::{Kind, tokenize};
use samlang_ast::{Location, Position};
use samlang_heap::{Heap, ModuleReference};
use samlang_services::server_state::ServerState;
use samlang_services::{query, rewrite};
use serde_json::{Value, json};
use std::collections::{BTreeSet, HashMap};

pub struct C15;

#[derive(Clone, Debug)]
struct Occ {
  binder: bool,
  /// binder written in the shorthand form `{ f }` of a struct pattern (rename must expand it to `f as new`)
  shorthand: bool,
  name: String,
  loc: Location,
  member: usize,
}

/// local-variable occurrences (binders and uses) of a module in document order
fn occurrences(nodes: &[Node]) -> Vec<Occ> {
  let member_of = |mut i: usize| -> usize {
    loop {
      if nodes[i].kind == "member" {
        return i;
      }
      match nodes[i].parent {
        Some(p) => i = p,
        None => return usize::MAX,
      }
    }
  };
  let in_interface = |mut i: usize| -> bool {
    loop {
      if nodes[i].kind == "interface" {
        return true;
      }
      match nodes[i].parent {
        Some(p) => i = p,
        None => return false,
      }
    }
  };
  let mut out = vec![];
  for (i, n) in nodes.iter().enumerate() {
    // parameters of interface member declarations have no body, hence no scope to agree with
    if n.kind == "param-name" && in_interface(i) {
      continue;
    }
    let binder = match n.kind {
      "param-name" | "pat-id" | "lambda-param-name" => true,
      "pat-field-name" => {
        // shorthand `{ f }` binds f; `{ f as p }` does not
        let parent = n.parent.unwrap_or(0);
        let has_sub_pattern = nodes.iter().enumerate().any(|(j, m)| m.parent == Some(parent) && j != i && m.kind.starts_with("pat-"));
        if has_sub_pattern {
          continue;
        }
        true
      }
      "local-name" => false,
      _ => continue,
    };
    let Some(name) = n.name.clone() else { continue };
    if name == "this" || name == "_" {
      continue;
    }
    out.push(Occ { binder, shorthand: n.kind == "pat-field-name", name, loc: n.loc, member: member_of(i) });
  }
  out.sort_by_key(|o| (o.loc.start.0, o.loc.start.1));
  out
}

type Span = (u32, u32, u32, u32);

fn span(l: &Location) -> Span {
  (l.start.0, l.start.1, l.end.0, l.end.1)
}

fn loc_str(l: &Location) -> String {
  format!("{}:{}-{}:{}", l.start.0 + 1, l.start.1 + 1, l.end.0 + 1, l.end.1 + 1)
}

/// lower-case identifier tokens after the import section (formatting never reorders those)
fn lower_idents(text: &str) -> Vec<String> {
  let toks: Vec<_> = tokenize(text).into_iter().filter(|t| !t.is_comment()).collect();
  let mut start = 0;
  for (i, t) in toks.iter().enumerate() {
    if t.kind == Kind::Keyword && t.text == "import" {
      // skip to the end of this import statement: `from a.b.c` then optional `;`
      let mut j = i;
      while j < toks.len() && !(toks[j].kind == Kind::Keyword && toks[j].text == "from") {
        j += 1;
      }
      j += 1;
      while j < toks.len() && (matches!(toks[j].kind, Kind::Lower | Kind::Upper) || toks[j].text == ".") {
        j += 1;
      }
      start = j;
    }
  }
  toks[start.min(toks.len())..].iter().filter(|t| t.kind == Kind::Lower).map(|t| t.text.clone()).collect()
}

pub struct Server {
  pub state: ServerState,
  pub mrs: HashMap<String, ModuleReference>,
}

pub fn server_for(mods: &Mods) -> Result<Server, (String, String)> {
  let mut heap = Heap::new();
  let texts: Vec<&str> = mods.iter().map(|(_, t)| t.as_str()).collect();
  let mut sources = HashMap::new();
  let mut mrs = HashMap::new();
  for (name, text) in crate::model::front::needed_std(&mut heap, &texts).into_iter().chain(mods.iter().cloned()) {
    let mr = heap.alloc_module_reference_from_string_vec(name.clone());
    mrs.insert(name.join("."), mr);
    sources.insert(mr, text);
  }
  guard(|| ServerState::new(heap, false, sources)).map(|state| Server { state, mrs })
}

fn user_diagnostics(s: &Server, mods: &Mods) -> Vec<String> {
  let mut v = vec![];
  for (name, _) in mods {
    let mr = s.mrs[&name.join(".")];
    for e in s.state.get_errors(&mr) {
      v.push(format!("{} {}", e.location.pretty_print(&s.state.heap), e.to_ide_format(&s.state.heap, &s.state.string_sources).ide_error));
    }
  }
  v.sort();
  v
}

// ------------------------------------------------------------------ or-pattern hosts

/// a pattern for `E` (variants A(int), B(int), C) that binds exactly the variables in `vars` (0 or 1)
fn pat_e(t: &mut Tape, vars: &[String], depth: u32) -> String {
  match vars.first() {
    Some(v) => match t.weighted(&[3, 3, if depth > 0 { 4 } else { 0 }]) {
      0 => format!("A({v})"),
      1 => format!("B({v})"),
      _ => {
        if t.bool(1, 2) { format!("A({v}) | B({v})") } else { format!("B({v}) | A({v})") }
      }
    },
    None => ["A(_)", "B(_)", "C", "_"][t.choose(4)].to_string(),
  }
}

/// a pattern for `Pair<E, E>` binding exactly `vars` (each variable in one component), possibly an
/// or-pattern of two tuple patterns that place the variables differently
fn pat_pair(t: &mut Tape, vars: &[String], depth: u32) -> String {
  let one = |t: &mut Tape| -> String {
    let (mut l, mut r): (Vec<String>, Vec<String>) = (vec![], vec![]);
    for v in vars {
      if t.bool(1, 2) && l.is_empty() {
        l.push(v.clone());
      } else if r.is_empty() {
        r.push(v.clone());
      } else {
        l.push(v.clone());
      }
    }
    let (a, b) = (pat_e(t, &l, depth), pat_e(t, &r, depth));
    // or-patterns inside a tuple need no parentheses; a wildcard component keeps the arm refutable
    format!("({a}, {b})")
  };
  if depth > 0 && t.bool(1, 2) {
    format!("{} | {}", one(t), one(t))
  } else {
    one(t)
  }
}

/// (unique-name text, queried text): a member with 2-4 match arms over Pair<E, E> using nested
/// or-patterns; the queried text re-uses x / y in every arm, the unique text numbers them per arm
fn or_pattern_host(t: &mut Tape) -> (String, String) {
  let arms = 2 + t.choose(3);
  let mut texts = [String::new(), String::new()];
  for (which, text) in texts.iter_mut().enumerate() {
    let _ = which;
    text.push_str("import { Pair } from std.tuples;\n\nclass E(A(int), B(int), C) {\n  function mk(): E = E.A(1)\n}\n\nclass Main {\n  function f(p: Pair<E, E>, k: int): int =\n    match p {\n");
  }
  for arm in 0..arms {
    let nvars = t.choose(3);
    // the two texts must make identical tape choices: generate once with placeholder names
    let placeholders: Vec<String> = (0..nvars).map(|i| format!("@{i}@")).collect();
    let pat = pat_pair(t, &placeholders, 1);
    let body = if nvars == 0 { "k".to_string() } else { format!("{} + k", placeholders.join(" + ")) };
    let arm_text = format!("      {pat} -> {body},\n");
    for (which, text) in texts.iter_mut().enumerate() {
      let mut a = arm_text.clone();
      for i in 0..nvars {
        let name = if which == 0 { format!("v{arm}n{i}") } else { ["x", "y"][i].to_string() };
        a = a.replace(&format!("@{i}@"), &name);
      }
      text.push_str(&a);
    }
  }
  for text in texts.iter_mut() {
    text.push_str("      _ -> 0,\n    }\n\n  function main(): unit = {\n    Process.println(Str.fromInt(Main.f((E.A(3), E.B(4)), 1)));\n    Process.println(Str.fromInt(Main.f((E.C(), E.A(5)), 2)));\n  }\n}\n");
  }
  let [u, r] = texts;
  (u, r)
}

/// (unique-name text, queried text): match arms over an enum whose variants carry a struct, with
/// or-patterns whose alternatives destructure the struct by field name; the queried text uses the
/// shorthand form `{ x, y }` wherever the variable is called like the field, the unique text always
/// writes `x as v<arm>n<i>`
fn struct_or_pattern_host(t: &mut Tape) -> (String, String) {
  let head = "class P(val x: int, val y: int) {\n  function mk(a: int, b: int): P = P.init(a, b)\n}\n\nclass Sh(Ci(P), Sq(P), No) {\n  function mk(): Sh = Sh.No()\n}\n\nclass Main {\n  function f(s: Sh, k: int): int =\n    match s {\n";
  let mut texts = [head.to_string(), head.to_string()];
  let arms = 1 + t.choose(3);
  for arm in 0..arms {
    let nvars = t.choose(3);
    let alts = 1 + t.choose(2);
    let first_ci = t.bool(1, 2);
    let mut pats = [vec![], vec![]];
    for alt in 0..alts {
      let tag = if (alt == 0) == first_ci { "Ci" } else { "Sq" };
      // which variable (if any) each field binds in this alternative
      let swapped = nvars > 0 && t.bool(1, 4);
      let var_of_field = |fi: usize| -> Option<usize> {
        let v = if swapped { 1 - fi } else { fi };
        if v < nvars { Some(v) } else { None }
      };
      let fields_rev = t.bool(1, 3);
      let order: [usize; 2] = if fields_rev { [1, 0] } else { [0, 1] };
      let mut elems = [vec![], vec![]];
      for fi in order {
        let field = ["x", "y"][fi];
        match var_of_field(fi) {
          None => {
            elems[0].push(format!("{field} as _"));
            elems[1].push(format!("{field} as _"));
          }
          Some(v) => {
            let reused = ["x", "y"][v];
            // `x as x` is normalised to `x` by rename (not by the formatter), so the host never writes it
            let shorthand = reused == field;
            elems[0].push(format!("{field} as v{arm}n{v}"));
            elems[1].push(if shorthand { field.to_string() } else { format!("{field} as {reused}") });
          }
        }
      }
      for w in 0..2 {
        pats[w].push(format!("{tag}({{ {} }})", elems[w].join(", ")));
      }
    }
    for w in 0..2 {
      let names: Vec<String> = (0..nvars).map(|v| if w == 0 { format!("v{arm}n{v}") } else { ["x", "y"][v].to_string() }).collect();
      let body = if nvars == 0 { "k".to_string() } else { format!("{} + k", names.join(" + ")) };
      texts[w].push_str(&format!("      {} -> {body},\n", pats[w].join(" | ")));
    }
  }
  for text in texts.iter_mut() {
    text.push_str("      _ -> 0,\n    }\n\n  function main(): unit = {\n    Process.println(Str.fromInt(Main.f(Sh.Ci(P.mk(3, 4)), 1)));\n    Process.println(Str.fromInt(Main.f(Sh.Sq(P.mk(5, 6)), 2)));\n    Process.println(Str.fromInt(Main.f(Sh.mk(), 7)));\n  }\n}\n");
  }
  let [u, r] = texts;
  (u, r)
}

impl Prop for C15 {
  fn id(&self) -> &'static str {
    "C15"
  }
  fn rule(&self) -> String {
    "hosts: (1 in 8) a member with 2-4 match arms over Pair<E, E> whose patterns are nested or-patterns binding the same variables in every alternative and in different tuple components (`(A(x) | B(x), _) | (_, B(x))`), the same names re-used in every arm; (1 in 8) match arms over an enum with struct payloads whose or-pattern alternatives destructure the struct by field name, in shorthand form (`Ci({ x, y }) | Sq({ y, x as _ })`) wherever the variable is called like the field, fields in either order and bound to either variable; (3 in 4) G1 accepted programs (parameters, let, tuple / struct (`as` and shorthand) / variant / or-patterns, if-let, match arms, lambda parameters, variables captured by nested lambdas) whose local names are unique per member; the queried document is that program or (1 in 2) the same program with every binder renamed after its scope level, so that sibling scopes reuse the same names and nested scopes never shadow; ground truth: occurrence i of the queried document resolves to the binder named by occurrence i of the unique-name version; at up to 16 tape-chosen identifier occurrences (first or last character): go-to-definition must land on a binding occurrence of the right variable, find-references must return all uses plus at least one binding occurrence of it and nothing else; for up to 3 of them rename to a fresh name must yield a document that parses, has the same (no) diagnostics, changes exactly the variable's occurrences in the sequence of lower-case identifiers, runs identically under the reference interpreter, and renaming back must restore the formatted original; non-trivial = the member containing a queried occurrence has >=3 distinct variables, and the document has a lambda or a pattern binder; distinct = hash of the document and the picks".into()
  }
  fn assumptions(&self) -> Vec<String> {
    vec![
      "parameters of interface member declarations (no body, no scope) are not queried".into(),
      "for a variable bound by an or-pattern every alternative's binder is a binding occurrence for find-references (the answer must contain at least one); go-to-definition must land on the first alternative's binder, which is what the checker's scope analysis resolves every occurrence to".into(),
      "rename returns the pretty-printed module, so changed occurrences are compared in the sequence of lower-case identifiers after the import section, against the formatter's output for the original".into(),
      "`behaves identically` is decided by the reference interpreter on both documents (the compiled pipeline is C01's subject)".into(),
    ]
  }
  fn params(&self, tier: Tier) -> Params {
    match tier {
      Tier::Quick => Params { cases: 2500, tape_len: 2500, workers: 14, stack_mb: 64, worker_timeout_s: 1500, shrink_iters: 300 },
      Tier::Thorough => Params { cases: 60_000, tape_len: 5000, workers: 16, stack_mb: 64, worker_timeout_s: 5 * 3600, shrink_iters: 300 },
    }
  }
  fn generate(&self, t: &mut Tape, tier: Tier) -> Value {
    if t.bool(1, 4) {
      let (u, r) = if t.bool(1, 2) { or_pattern_host(t) } else { struct_or_pattern_host(t) };
      let picks: Vec<u32> = (0..16).map(|_| t.raw()).collect();
      let m = |x: &str| vec![json!({"name": ["M"], "text": x})];
      return json!({"unique": m(&u), "modules": m(&r), "entry": ["M"], "picks": picks, "reused": true, "features": ["or-pattern-host"]});
    }
    let mut cfg = super::behav::cfg_for("C15", tier);
    cfg.force_hof = t.bool(1, 3);
    let (mut ir, feats) = gen_program(t, cfg);
    let unique = ir.render();
    let reused = t.bool(1, 2);
    if reused {
      let _ = apply(&mut ir, t, "reuse-names");
    }
    let doc = ir.render();
    let picks: Vec<u32> = (0..16).map(|_| t.raw()).collect();
    let mj = |m: &Mods| m.iter().map(|(n, x)| json!({"name": n, "text": x})).collect::<Vec<_>>();
    json!({"unique": mj(&unique), "modules": mj(&doc), "entry": ir.entry, "picks": picks, "reused": reused, "features": feats})
  }

  fn check(&self, art: &Value) -> Outcome {
    let mut out = Outcome::default();
    let (doc, entry) = mods_of(art);
    let (unique, _) = mods_of(&json!({"modules": art["unique"], "entry": art["entry"]}));
    out.key = fnv(format!("{}{}", describe(&doc), art["picks"]).as_bytes());
    if doc.len() != unique.len() {
      return Outcome::discarded("INFRA:module-lists-differ");
    }
    let mut srv = match server_for(&doc) {
      Ok(s) => s,
      Err(_) => return Outcome::discarded("server-panics-on-start(C11)"),
    };
    if !user_diagnostics(&srv, &doc).is_empty() {
      return Outcome::discarded("host-not-accepted");
    }
    // occurrences per module
    let mut all: Vec<(usize, Vec<Occ>, Vec<Occ>)> = vec![];
    for (mi, ((name, text), (_, utext))) in doc.iter().zip(unique.iter()).enumerate() {
      let names: Vec<&str> = name.iter().map(|s| s.as_str()).collect();
      let (Ok(p), Ok(pu)) = (crate::model::front::parse(text, &names), crate::model::front::parse(utext, &names)) else { return Outcome::discarded("parser-panics(C05)") };
      let (o, ou) = (occurrences(&walk_module(&p.heap, &p.module)), occurrences(&walk_module(&pu.heap, &pu.module)));
      if o.len() != ou.len() || o.iter().zip(&ou).any(|(a, b)| a.binder != b.binder) {
        return Outcome::discarded("INFRA:occurrence-lists-do-not-align");
      }
      all.push((mi, o, ou));
    }
    let total: usize = all.iter().map(|(_, o, _)| o.len()).sum();
    if total == 0 {
      return Outcome::discarded("no-local-variables");
    }
    let reused = art["reused"].as_bool().unwrap_or(false);
    out.label(if reused { "document:names-reused-by-scope-level" } else { "document:unique-names" });
    let text_all = describe(&doc);
    let has_shape = text_all.contains("->") || text_all.contains(" as ") || text_all.contains("match ");
    let picks: Vec<u64> = art["picks"].as_array().cloned().unwrap_or_default().iter().map(|x| x.as_u64().unwrap_or(0)).collect();
    let mut renames_done = 0;
    let mut seen_picks = BTreeSet::new();
    for (pi, raw) in picks.iter().enumerate() {
      let mut idx = ((*raw as u128 * total as u128) >> 32) as usize;
      let mut which = 0;
      while idx >= all[which].1.len() {
        idx -= all[which].1.len();
        which += 1;
      }
      if !seen_picks.insert((which, idx)) {
        continue;
      }
      let (mi, occ, uocc) = &all[which];
      let (name, text) = &doc[*mi];
      let mr = srv.mrs[&name.join(".")];
      let o = &occ[idx];
      let class: Vec<usize> = (0..occ.len()).filter(|j| uocc[*j].member == uocc[idx].member && uocc[*j].name == uocc[idx].name).collect();
      let binders: Vec<Location> = class.iter().filter(|j| occ[**j].binder).map(|j| occ[*j].loc).collect();
      let uses: Vec<Location> = class.iter().filter(|j| !occ[**j].binder).map(|j| occ[*j].loc).collect();
      let distinct_vars = uocc.iter().filter(|x| x.member == uocc[idx].member).map(|x| x.name.clone()).collect::<BTreeSet<_>>().len();
      if distinct_vars >= 3 && has_shape {
        out.nontrivial = true;
      }
      if binders.is_empty() {
        return Outcome::discarded("INFRA:use-without-binder-in-ground-truth");
      }
      let at_end = raw & 1 == 1;
      let pos = if at_end { Position(o.loc.end.0, o.loc.end.1.saturating_sub(1)) } else { o.loc.start };
      let what = format!("{} `{}` at {} (variable {} of the unique-name version)", if o.binder { "binder" } else { "use" }, o.name, loc_str(&o.loc), uocc[idx].name);
      let ctx = |extra: &str| format!("{extra}\nquery at {}:{} of module {}: {what}\nexpected binding occurrence(s): {:?}, uses: {:?}\n--- document ---\n{text}", pos.0 + 1, pos.1 + 1, name.join("."), binders.iter().map(loc_str).collect::<Vec<_>>(), uses.iter().map(loc_str).collect::<Vec<_>>());
      out.label(if o.binder { "query-at:binder" } else { "query-at:use" });
      // definition
      match guard(|| query::definition_location(&srv.state, &mr, pos)) {
        Err(e) => {
          out.fail(panic_sig("definition", &e), ctx(&e.1));
          return out;
        }
        Ok(None) => {
          out.fail(format!("definition/none/{}", if o.binder { "at-binder" } else { "at-use" }), ctx("go-to-definition returned nothing"));
          return out;
        }
        Ok(Some(l)) => {
          if !binders.iter().any(|b| span(b) == span(&l)) {
            out.fail(format!("definition/wrong-binding/{}", if o.binder { "at-binder" } else { "at-use" }), ctx(&format!("go-to-definition returned {}", loc_str(&l))));
            return out;
          }
          // the checker resolves every occurrence - also the occurrences in later alternatives of an
          // or-pattern - to the binding introduced by the first alternative (ssa_analysis records the
          // later ones as uses); occurrences are in document order, so that is the first binder
          if binders.len() > 1 {
            out.label("definition:variable-bound-in-several-or-pattern-alternatives");
            if span(&binders[0]) != span(&l) {
              out.fail(format!("definition/not-the-binding-the-checker-resolves/{}", if o.binder { "at-binder" } else { "at-use" }), ctx(&format!("go-to-definition returned {} (the checker resolves the name to the first alternative's binding {})", loc_str(&l), loc_str(&binders[0]))));
              return out;
            }
          }
        }
      }
      // references
      match guard(|| query::all_references(&srv.state, &mr, pos)) {
        Err(e) => {
          out.fail(panic_sig("references", &e), ctx(&e.1));
          return out;
        }
        Ok(refs) => {
          let has = |set: &[Location], l: &Location| set.iter().any(|x| span(x) == span(l));
          let extra: Vec<&Location> = refs.iter().filter(|l| !has(&binders, l) && !has(&uses, l)).collect();
          let missing: Vec<&Location> = uses.iter().filter(|l| !has(&refs, l)).collect();
          if !extra.is_empty() || !missing.is_empty() || !refs.iter().any(|l| has(&binders, l)) {
            let class = if !extra.is_empty() { "foreign-occurrence" } else if !missing.is_empty() { "missing-use" } else { "no-binding-occurrence" };
            out.fail(format!("references/{class}"), ctx(&format!("find-references returned {:?}", refs.iter().map(loc_str).collect::<Vec<_>>())));
            return out;
          }
        }
      }
      // rename (a few)
      if renames_done >= 3 {
        continue;
      }
      renames_done += 1;
      let fresh = format!("freshName{pi}Q");
      let renamed = match guard(|| rewrite::rename(&mut srv.state, &mr, pos, &fresh)) {
        Err(e) => {
          out.fail(panic_sig("rename", &e), ctx(&e.1));
          return out;
        }
        Ok(None) => {
          out.fail("rename/none", ctx("rename returned nothing"));
          return out;
        }
        Ok(Some(t)) => t,
      };
      let formatted = match guard(|| rewrite::format_entire_document(&srv.state, &mr)) {
        Ok(Some(f)) => f,
        _ => return Outcome::discarded("formatter-unavailable(C05/C08)"),
      };
      let (a, b) = (lower_idents(&formatted), lower_idents(&renamed));
      // expected: exactly the class's occurrences change, to the fresh name
      let doc_idents = lower_idents(text);
      if doc_idents != a {
        out.label("rename:identifier-sequence-changed-by-formatting(not compared)");
      } else {
        // index of each occurrence in the identifier sequence: by position in the document
        let toks: Vec<_> = tokenize(text).into_iter().filter(|t| !t.is_comment()).collect();
        let lower_positions: Vec<(u32, u32)> = {
          let all_lower: Vec<(u32, u32)> = toks.iter().filter(|t| t.kind == Kind::Lower).map(|t| (t.line, t.col)).collect();
          all_lower[all_lower.len() - a.len()..].to_vec()
        };
        let expect_changed: BTreeSet<usize> = class.iter().filter_map(|j| lower_positions.iter().position(|p| *p == (occ[*j].loc.start.0, occ[*j].loc.start.1))).collect();
        // a shorthand binder `{ f }` must become `{ f as fresh }`: the field name stays and the new name follows it
        let shorthand_at: BTreeSet<usize> = class.iter().filter(|j| occ[**j].shorthand).filter_map(|j| lower_positions.iter().position(|p| *p == (occ[*j].loc.start.0, occ[*j].loc.start.1))).collect();
        let mut expected_seq: Vec<String> = vec![];
        for (k, id) in a.iter().enumerate() {
          if shorthand_at.contains(&k) {
            expected_seq.push(id.clone());
            expected_seq.push(fresh.clone());
          } else if expect_changed.contains(&k) {
            expected_seq.push(fresh.clone());
          } else {
            expected_seq.push(id.clone());
          }
        }
        if !shorthand_at.is_empty() {
          out.label("rename:expands-shorthand-struct-pattern");
        }
        let changed: BTreeSet<usize> = (0..a.len().min(b.len())).filter(|k| a[*k] != b[*k]).collect();
        if b != expected_seq {
          out.fail("rename/wrong-occurrences", ctx(&format!("renaming to `{fresh}` changed identifier occurrences {:?} (to {:?}), expected {:?}\n--- renamed document ---\n{renamed}", changed, changed.iter().map(|k| b.get(*k)).collect::<Vec<_>>(), expect_changed)));
          return out;
        }
      }
      // the renamed document: parses, same diagnostics, same behaviour, and renaming back restores it
      let mut renamed_mods = doc.clone();
      renamed_mods[*mi].1 = renamed.clone();
      let mut srv2 = match server_for(&renamed_mods) {
        Ok(s) => s,
        Err(e) => {
          out.fail(panic_sig("server-on-renamed-document", &e), ctx(&e.1));
          return out;
        }
      };
      let d2 = user_diagnostics(&srv2, &renamed_mods);
      if !d2.is_empty() {
        out.fail("rename/renamed-document-has-diagnostics", ctx(&format!("after renaming to `{fresh}` the document reports {:?}\n--- renamed document ---\n{renamed}", d2.iter().take(3).collect::<Vec<_>>())));
        return out;
      }
      if !entry.is_empty() {
        let (r1, r2) = (reference_run(&doc, &entry, 300_000), reference_run(&renamed_mods, &entry, 300_000));
        if let (Some(r1), Some(r2)) = (r1, r2)
          // the returned document is pretty-printed: overflow-dependent programs are out of the spec (and C08 owns the re-association finding)
          && !matches!(r1.end, End::Budget | End::Stuck(_) | End::Excluded(_))
          && !matches!(r2.end, End::Budget | End::Excluded(_))
          && (r1.lines != r2.lines || end_str(&r1.end) != end_str(&r2.end))
        {
          out.fail("rename/behaviour-changed", ctx(&format!("reference run before: {} {:?}; after renaming: {} {:?}\n--- renamed document ---\n{renamed}", end_str(&r1.end), r1.lines.iter().take(6).collect::<Vec<_>>(), end_str(&r2.end), r2.lines.iter().take(6).collect::<Vec<_>>())));
          return out;
        }
      }
      // rename back: find the fresh name in the renamed document
      let rtoks = tokenize(&renamed);
      if let Some(tk) = rtoks.iter().find(|t| t.kind == Kind::Lower && t.text == fresh) {
        let mr2 = srv2.mrs[&name.join(".")];
        match guard(|| rewrite::rename(&mut srv2.state, &mr2, Position(tk.line, tk.col), &o.name)) {
          Err(e) => {
            out.fail(panic_sig("rename-back", &e), ctx(&e.1));
            return out;
          }
          Ok(None) => {
            out.fail("rename-back/none", ctx("renaming back returned nothing"));
            return out;
          }
          Ok(Some(back)) => {
            if back != formatted {
              out.fail("rename-back/differs-from-original", ctx(&format!("renaming `{fresh}` back to `{}` does not restore the (formatted) original: {}\n--- restored ---\n{back}", o.name, first_diff(&formatted.lines().map(|s| s.to_string()).collect::<Vec<_>>(), &back.lines().map(|s| s.to_string()).collect::<Vec<_>>()))));
              return out;
            }
          }
        }
      }
      out.label("rename:checked");
    }
    out.sample = Some(json!({"reused_names": reused, "occurrences": total, "document": super::fmt_common::short(&text_all, 500)}));
    out
  }
}
