pub mod ir;
pub mod progen;
pub mod soup;
pub mod syngen;
