use sv::engine::{Tier, parent, worker};
use std::path::PathBuf;

fn usage() -> ! {
  eprintln!("usage: vcheck <ID> [--tier quick|thorough] [--replay FILE]");
  std::process::exit(2);
}

fn main() {
  let args: Vec<String> = std::env::args().skip(1).collect();
  if args.is_empty() {
    usage();
  }
  match args[0].as_str() {
    "worker" => {
      // worker ID tier seed index n cases out restart
      let prop = sv::props::by_id(&args[1]).expect("unknown property");
      let wa = worker::WorkerArgs {
        tier: Tier::parse(&args[2]),
        seed: args[3].parse().unwrap(),
        index: args[4].parse().unwrap(),
        nworkers: args[5].parse().unwrap(),
        cases: args[6].parse().unwrap(),
        out: PathBuf::from(&args[7]),
        restart: args[8].parse().unwrap(),
      };
      worker::run_worker(prop, wa);
    }
    "one" => {
      let prop = sv::props::by_id(&args[1]).expect("unknown property");
      let tier = Tier::parse(&args[2]);
      let case: serde_json::Value = serde_json::from_str(&std::fs::read_to_string(&args[3]).unwrap()).unwrap();
      let o = worker::run_one(prop, tier, &case);
      let fs: Vec<serde_json::Value> = o.failures.iter().map(|f| serde_json::json!({"sig": f.sig, "detail": f.detail})).collect();
      println!("{}", serde_json::json!({"failures": fs, "discard": o.discard, "nontrivial": o.nontrivial, "labels": o.labels, "sample": o.sample}));
    }
    "gen" => {
      // gen ID tier casefile : print the artifact a tape generates
      let prop = sv::props::by_id(&args[1]).expect("unknown property");
      let tier = Tier::parse(&args[2]);
      let case: serde_json::Value = serde_json::from_str(&std::fs::read_to_string(&args[3]).unwrap()).unwrap();
      let data: Vec<u32> = case["tape"].as_array().unwrap().iter().map(|x| x.as_u64().unwrap_or(0) as u32).collect();
      prop.setup(tier);
      let mut tape = sv::engine::Tape::new(data);
      println!("{}", serde_json::to_string_pretty(&prop.generate(&mut tape, tier)).unwrap());
    }
    "list" => {
      for p in sv::props::all() {
        println!("{}", p.id());
      }
    }
    id => {
      let Some(prop) = sv::props::by_id(id) else { usage() };
      let mut tier = Tier::parse(&std::env::var("VERIF_TIER").unwrap_or_default());
      let mut replay: Option<String> = None;
      let mut i = 1;
      while i < args.len() {
        match args[i].as_str() {
          "--tier" => {
            tier = Tier::parse(&args[i + 1]);
            i += 2;
          }
          "--replay" => {
            replay = Some(args[i + 1].clone());
            i += 2;
          }
          _ => usage(),
        }
      }
      let seed: u64 = std::env::var("VERIF_SEED").ok().and_then(|s| s.trim().parse::<i64>().ok()).map(|v| v as u64).unwrap_or(20260925);
      let code = match replay {
        Some(f) => parent::run_replay(prop, tier, &f),
        None => parent::run_check(prop, tier, seed),
      };
      std::process::exit(code);
    }
  }
}
