//! Shared pipeline of the behavioural checks (C01, C03, C04, ...): reference run, real
//! compilation, validation and execution of both artefacts.

use crate::engine::node::{Exec, Node};
use crate::model::exec::{CompileOutcome, Compiled, compile, validate_wasm};
use crate::model::front;
use crate::model::interp::{End, Run, run_program};
use serde_json::{Value, json};
use std::cell::RefCell;
use std::time::Duration;

thread_local! {
  static NODE: RefCell<Option<Node>> = const { RefCell::new(None) };
}

pub fn with_node<T>(f: impl FnOnce(&mut Node) -> T) -> Option<T> {
  NODE.with(|n| {
    let mut n = n.borrow_mut();
    if n.is_none() {
      *n = Node::spawn();
    }
    n.as_mut().map(f)
  })
}

pub type Mods = Vec<(Vec<String>, String)>;

pub fn mods_of(art: &Value) -> (Mods, Vec<String>) {
  let mods = art["modules"]
    .as_array()
    .cloned()
    .unwrap_or_default()
    .iter()
    .map(|m| (m["name"].as_array().cloned().unwrap_or_default().iter().map(|x| x.as_str().unwrap_or("").to_string()).collect(), m["text"].as_str().unwrap_or("").to_string()))
    .collect();
  let entry = art["entry"].as_array().cloned().unwrap_or_default().iter().map(|x| x.as_str().unwrap_or("").to_string()).collect();
  (mods, entry)
}

pub fn art_of(mods: &Mods, entry: &[String], features: &[&str]) -> Value {
  json!({
    "modules": mods.iter().map(|(n, t)| json!({"name": n, "text": t})).collect::<Vec<_>>(),
    "entry": entry,
    "features": features,
  })
}

pub fn describe(mods: &Mods) -> String {
  mods.iter().map(|(n, t)| format!("--- module {} ---\n{}", n.join("."), t)).collect::<Vec<_>>().join("\n")
}

pub fn reference_run(mods: &Mods, entry: &[String], max_steps: u64) -> Option<Run> {
  let prog = front::load_program(mods).ok()?;
  if prog.syntax_errors > 0 {
    return None;
  }
  let e = entry.join(".");
  let mr = prog.user.iter().copied().find(|m| m.pretty_print(&prog.heap) == e)?;
  Some(run_program(&prog.heap, &prog.modules, mr, max_steps))
}

pub struct Executed {
  pub compiled: Compiled,
  pub wasm_valid: Result<(), String>,
  pub wasm: Exec,
  pub ts: Option<Exec>,
}

pub enum Pipeline {
  Executed(Box<Executed>),
  Rejected(String),
  CompilePanic((String, String)),
  NoNode,
}

pub fn run_pipeline(mods: &Mods, entry: &[String], with_ts: bool) -> Pipeline {
  match compile(mods, entry) {
    CompileOutcome::Rejected(m) => Pipeline::Rejected(m),
    CompileOutcome::Panicked(e) => Pipeline::CompilePanic(e),
    CompileOutcome::Ok(c) => {
      let wasm_valid = validate_wasm(&c.wasm);
      let r = with_node(|node| {
        let w = node.run_wasm(&c.wasm, &c.loader, &c.main, Duration::from_secs(run_timeout_s()));
        let t = if with_ts { Some(node.run_ts(&c.ts_code, Duration::from_secs(run_timeout_s()))) } else { None };
        (w, t)
      });
      match r {
        None => Pipeline::NoNode,
        Some((wasm, ts)) => Pipeline::Executed(Box::new(Executed { compiled: c, wasm_valid, wasm, ts })),
      }
    }
  }
}

pub fn end_str(e: &End) -> String {
  match e {
    End::Return => "return".into(),
    End::Panic(m) => format!("panic({m:?})"),
    End::VecBounds => "vec-bounds-panic".into(),
    End::Excluded(r) => format!("excluded:{r}"),
    End::Budget => "budget".into(),
    End::Stuck(m) => format!("stuck:{m}"),
  }
}

pub fn exec_str(e: &Exec) -> String {
  if e.message.is_empty() { e.end.clone() } else { format!("{}({:?})", e.end, e.message) }
}

/// class of an engine-level message (digits removed)
pub fn trap_class(e: &Exec) -> String {
  engine_msg_class(&e.message)
}

/// engine / validator messages without function names, indices and offsets
pub fn engine_msg_class(m: &str) -> String {
  let m = m.split(" failed: ").last().unwrap_or(m);
  let m = m.split(" (at offset").next().unwrap_or(m);
  let m = m.split(" @+").next().unwrap_or(m);
  // drop type indices such as (ref null 17)
  let mut out = String::new();
  for c in m.chars() {
    if c.is_ascii_digit() {
      if !out.ends_with('#') {
        out.push('#');
      }
    } else {
      out.push(c);
    }
  }
  out.chars().take(90).collect()
}

/// first index where two line sequences differ
pub fn first_diff(a: &[String], b: &[String]) -> String {
  for i in 0..a.len().max(b.len()) {
    if a.get(i) != b.get(i) {
      let cut = |s: Option<&String>| s.map(|x| super::fmt_common::short(x, 200));
      return format!("line {}: {:?} vs {:?}", i + 1, cut(a.get(i)), cut(b.get(i)));
    }
  }
  "equal".into()
}

/// wall-clock safety net per execution; expiry is "inconclusive", never a verdict
pub fn run_timeout_s() -> u64 {
  std::env::var("VERIF_RUN_TIMEOUT_S").ok().and_then(|s| s.parse().ok()).unwrap_or(5)
}
