//! C02 – optimization passes never change what a program prints or how it terminates.
//! Differential across optimization plans: the program is compiled without the optimizer, with each
//! of the 32 on/off configurations, with each single pass in isolation and with random pass
//! sequences; every distinct emitted WebAssembly module is executed and compared with the
//! unoptimized one.

use super::run_common::*;
use crate::engine::node::Exec;
use crate::engine::{Outcome, Params, Prop, Tape, Tier, fnv};
use crate::generators::loopgen::{LoopCfg, gen_loop_program};
use crate::generators::progen::gen_program;
use crate::model::exec::{CompileOutcome, Plan, compile_with_plan, validate_wasm};
use serde_json::{Value, json};
use std::time::Duration;

pub struct C02;

pub const PASSES: &[&str] = &[
  "conditional-constant-propagation",
  "scalar-replacement",
  "loop-optimizations",
  "common-subexpression-elimination",
  "local-value-numbering",
  "dead-code-elimination",
  "inlining",
  "unused-name-elimination",
];

fn loop_cfg() -> LoopCfg {
  let ex = |flag: &str| crate::engine::findings::excluded("C02", flag);
  LoopCfg { effects_in_loop: !ex("effects_in_loop"), derived_iv: !ex("derived_iv"), possibly_zero_divisor: !ex("possibly_zero_divisor"), guard_as_result: !ex("guard_as_result"), compare_after_add: !ex("compare_after_add"), max_loops: 4 }
}

fn plans(art: &Value) -> Vec<Plan> {
  let mut v = vec![];
  for bits in 0..32u32 {
    v.push(Plan::Config([bits & 1 != 0, bits & 2 != 0, bits & 4 != 0, bits & 8 != 0, bits & 16 != 0]));
  }
  // inlining binds results with `x + 0` moves of any type, which only constant propagation resolves;
  // no configuration hands them to the backend, so plans containing inlining end with that pass
  let close = |mut seq: Vec<String>| -> Vec<String> {
    if seq.iter().any(|p| p == "inlining") && seq.last().map(|p| p != "conditional-constant-propagation").unwrap_or(false) {
      seq.push("conditional-constant-propagation".to_string());
    }
    seq
  };
  for p in PASSES {
    v.push(Plan::Passes(close(vec![p.to_string()])));
  }
  for seq in art["sequences"].as_array().cloned().unwrap_or_default() {
    v.push(Plan::Passes(close(seq.as_array().cloned().unwrap_or_default().iter().map(|x| x.as_str().unwrap_or("").to_string()).collect())));
  }
  v
}

fn same(a: &Exec, b: &Exec) -> bool {
  if a.lines != b.lines {
    return false;
  }
  match (a.end.as_str(), b.end.as_str()) {
    ("panic", "panic") => a.message == b.message,
    ("trap", "trap") => trap_class(a) == trap_class(b),
    (x, y) => x == y,
  }
}

impl Prop for C02 {
  fn id(&self) -> &'static str {
    "C02"
  }
  fn rule(&self) -> String {
    "hosts: (2 in 3) G2 loop programs - 1-4 tail-recursive functions (compiled to while loops) with a basic induction variable (start and bound from {0, +-1, small, 65536, 2^30, INT_MAX-k, INT_MIN+k}, strides +-1, +-2..7, +-1000, +-65536, 2^20, +-2^30, +-INT_MAX, written as i + s or i - s), guards < <= > >= != == in both operand orders, an optional second induction variable, accumulator updates (sum, derived induction expression i*k+c, wrapping acc*3+i, remainder, division, division / remainder by a loop-dependent possibly-zero value, loop-invariant b*2+c, nested loop call, tuple allocated per iteration, conditional), results acc / i / acc+j / i*k+acc / the guard re-evaluated, Process.println inside the body (1 in 4), arguments passed as literals or as opaque run-time values; trip counts bounded by simulation with wrapping arithmetic (<=1500, <=30 with effects); (1 in 3) G1 general programs (generics, closures, structs, enums, match, strings, Vec); plans: no optimizer (reference), all 32 on/off configurations of {LVN, CSE, loop, inlining, scalar replacement} through optimize_sources, each of the 8 passes alone, and 3 tape-chosen driver-shaped schedules (1-3 rounds of `ccp, [sr], [loop], [cse], [lvn], dce` with a per-round subset, inlining + unused-name elimination between rounds, closed with `ccp, dce, ccp`) through the hook; oracle (differential): every plan's emitted module, executed in node, prints the same lines and ends the same way (ok / panic message / trap class / stack exhaustion) as the unoptimized module; plans for which the compiler panics or emits an invalid module are counted and skipped (artefact validity is C03's subject); a run that exceeds the time limit where the reference finished is re-run with a doubled limit before it is reported; non-trivial = >=2 distinct emitted modules and (a loop that iterates or a G1 host); distinct = hash of the program".into()
  }
  fn assumptions(&self) -> Vec<String> {
    vec![
      "the reference is the same compiler without optimize_sources (MIR lowered directly); 32-bit wrapping arithmetic and traps are the target's semantics, so overflowing programs are in the domain".into(),
      "inlining leaves `x + 0` moves of pointer type that only constant propagation resolves and that no configuration hands to the backend: plans containing inlining are closed with one constant-propagation pass".into(),
      "plans whose emitted module is byte-identical to an earlier plan's are not executed again".into(),
      "stack exhaustion of both runs is `same ending` and their printed prefixes are not compared (frame sizes differ)".into(),
    ]
  }
  fn params(&self, tier: Tier) -> Params {
    match tier {
      Tier::Quick => Params { cases: 1200, tape_len: 2500, workers: 14, stack_mb: 256, worker_timeout_s: 1800, shrink_iters: 120 },
      Tier::Thorough => Params { cases: 40_000, tape_len: 5000, workers: 16, stack_mb: 256, worker_timeout_s: 5 * 3600, shrink_iters: 120 },
    }
  }
  fn generate(&self, t: &mut Tape, tier: Tier) -> Value {
    // driver-shaped schedules: 1-3 rounds, each `ccp, [sr], [loop], [cse], [lvn], dce` with a tape-chosen
    // subset per round (a configuration that varies from round to round), inlining + unused-name
    // elimination between rounds, closed like the driver with `ccp, dce, ccp`. Every pass therefore
    // sees an input some run of the driver's own pass order could have produced.
    let sequences: Vec<Vec<&str>> = (0..3)
      .map(|_| {
        let mut seq = vec![];
        let rounds = 1 + t.choose(3);
        for r in 0..rounds {
          seq.push("conditional-constant-propagation");
          for p in ["scalar-replacement", "loop-optimizations", "common-subexpression-elimination", "local-value-numbering"] {
            if t.bool(1, 2) {
              seq.push(p);
            }
          }
          seq.push("dead-code-elimination");
          if r + 1 < rounds && t.bool(2, 3) {
            seq.push("inlining");
            seq.push("unused-name-elimination");
          }
        }
        seq.extend(["conditional-constant-propagation", "dead-code-elimination", "conditional-constant-propagation"]);
        seq
      })
      .collect();
    if t.bool(2, 3) {
      let text = gen_loop_program(t, &loop_cfg());
      let mut art = art_of(&vec![(vec!["Main".to_string()], text)], &["Main".to_string()], &["loop-program"]);
      art["sequences"] = json!(sequences);
      art
    } else {
      let cfg = super::behav::cfg_for("C02", tier);
      let (ir, feats) = gen_program(t, cfg);
      let mut art = art_of(&ir.render(), &ir.entry, &feats);
      art["sequences"] = json!(sequences);
      art
    }
  }
  fn check(&self, art: &Value) -> Outcome {
    let mut out = Outcome::default();
    let (mods, entry) = mods_of(art);
    let text = describe(&mods);
    out.key = fnv(text.as_bytes());
    let is_loop = art["features"].as_array().map(|f| f.iter().any(|x| x == "loop-program")).unwrap_or(false);
    out.label(if is_loop { "host:G2-loops" } else { "host:G1-general" });
    let timeout = Duration::from_secs(run_timeout_s());
    let reference = match compile_with_plan(&mods, &entry, &Plan::Unoptimized) {
      CompileOutcome::Ok(c) => c,
      CompileOutcome::Rejected(m) => return Outcome::discarded(format!("{}:{}", if is_loop { "INFRA:loop-program-rejected" } else { "rejected-by-checker" }, crate::engine::msg_class(&m))),
      CompileOutcome::Panicked(_) => return Outcome::discarded("compiler-panics-without-optimizer(C03)"),
    };
    if validate_wasm(&reference.wasm).is_err() {
      return Outcome::discarded("unoptimized-module-invalid(C03)");
    }
    let Some(r0) = with_node(|n| n.run_wasm(&reference.wasm, &reference.loader, &reference.main, timeout)) else { return Outcome::discarded("INFRA:node-unavailable") };
    match r0.end.as_str() {
      "timeout" => return Outcome::discarded("reference-run-timeout(inconclusive)"),
      "infra" => return Outcome::discarded("INFRA:node-worker-died"),
      "compile-error" | "link-error" => return Outcome::discarded("unoptimized-module-not-loadable(C03)"),
      _ => {}
    }
    out.label(format!("reference-end:{}", r0.end));
    let mut seen: Vec<u64> = vec![fnv(&reference.wasm)];
    let mut executed = 0;
    for plan in plans(art) {
      let what = plan.describe();
      let kind = match &plan {
        Plan::Config(_) => "config",
        Plan::Passes(p) if p.len() == 1 || (p.len() == 2 && p[0] == "inlining") => "single-pass",
        _ => "pass-sequence",
      };
      let flags = |c: &[bool; 5]| -> String {
        let names = ["lvn", "cse", "loop", "inline", "sr"];
        let on: Vec<&str> = names.iter().zip(c.iter()).filter(|(_, b)| **b).map(|(n, _)| *n).collect();
        if on.is_empty() { "config:baseline(ccp+dce)".to_string() } else { format!("config:{}", on.join("+")) }
      };
      let sig_plan = match &plan {
        // configurations are tried in increasing order: the first one that differs names the needed switches
        Plan::Config(c) => flags(c),
        Plan::Passes(p) if p.len() == 1 || (p.len() == 2 && p[0] == "inlining") => format!("single-pass:{}", p[0]),
        _ => kind.to_string(),
      };
      let ctx = |extra: &str| format!("{extra}\nplan: {what}\nreference (no optimizer): {} {:?}\n{text}", exec_str(&r0), r0.lines.iter().take(8).collect::<Vec<_>>());
      let c = match compile_with_plan(&mods, &entry, &plan) {
        CompileOutcome::Ok(c) => c,
        CompileOutcome::Rejected(_) => return Outcome::discarded("INFRA:verdict-changed-between-compilations"),
        CompileOutcome::Panicked(e) => {
          // no optimized program exists: artefact validity is C03's subject, counted here
          out.label(format!("plan-not-buildable(C03):compiler-panic:{}", e.0));
          continue;
        }
      };
      let h = fnv(&c.wasm);
      if seen.contains(&h) {
        continue;
      }
      seen.push(h);
      if let Err(e) = validate_wasm(&c.wasm) {
        out.label(format!("plan-not-buildable(C03):invalid-module:{}", engine_msg_class(&e)));
        continue;
      }
      let Some(mut r) = with_node(|n| n.run_wasm(&c.wasm, &c.loader, &c.main, timeout)) else { return Outcome::discarded("INFRA:node-unavailable") };
      executed += 1;
      if r.end == "infra" {
        return Outcome::discarded("INFRA:node-worker-died");
      }
      if r.end == "timeout" {
        // the reference finished within the limit: try once more with twice the time
        let Some(r2) = with_node(|n| n.run_wasm(&c.wasm, &c.loader, &c.main, timeout * 2)) else { return Outcome::discarded("INFRA:node-unavailable") };
        if r2.end == "timeout" {
          out.fail(format!("does-not-terminate/{sig_plan}"), ctx(&format!("the optimized program did not finish within {:?} (the unoptimized one did)", timeout * 2)));
          return out;
        }
        r = r2;
      }
      if r.end == "stack" && r0.end == "stack" {
        continue;
      }
      if !same(&r0, &r) {
        let class = if r.lines != r0.lines { "printed-lines-differ" } else { "end-differs" };
        let end_of = |e: &Exec| if e.end == "trap" { format!("trap({})", trap_class(e)) } else { e.end.clone() };
        out.fail(
          format!("{class}/{sig_plan}/{}->{}", end_of(&r0), end_of(&r)),
          ctx(&format!("optimized: {} {:?}; {}", exec_str(&r), r.lines.iter().take(8).collect::<Vec<_>>(), first_diff(&r0.lines, &r.lines))),
        );
        return out;
      }
    }
    out.nontrivial = seen.len() >= 2 && (!is_loop || r0.lines.len() >= 1);
    out.label(format!("distinct-modules:{}", if seen.len() < 2 { "1" } else if seen.len() < 6 { "2-5" } else if seen.len() < 15 { "6-14" } else { ">=15" }));
    out.sample = Some(json!({"host": if is_loop { "G2" } else { "G1" }, "distinct_modules": seen.len(), "executed": executed, "reference": exec_str(&r0), "program": super::fmt_common::short(&text, 600)}));
    out
  }
}
