//! Parent process: spawns isolated workers, attributes aborts, merges statistics,
//! prints KNOWN-FINDING / VIOLATION lines, writes evidence.
//! Exit codes: 0 = held on everything explored, 1 = violation, 2 = inconclusive / infrastructure.

use super::{Prop, Tier, findings};
use serde_json::{Value, json};
use std::collections::{BTreeMap, HashSet};
use std::path::{Path, PathBuf};
use std::process::{Child, Command, Stdio};
use std::time::{Duration, Instant};

fn scratch_dir(id: &str) -> PathBuf {
  let d = super::verif_root().join("out").join("work").join(format!("{}-{}", id, std::process::id()));
  let _ = std::fs::create_dir_all(&d);
  d
}

struct Running {
  child: Child,
  index: usize,
  restart: u64,
  cases: u64,
  out: PathBuf,
  started: Instant,
}

fn spawn_worker(id: &str, tier: Tier, seed: u64, index: usize, n: usize, cases: u64, restart: u64, dir: &Path) -> Running {
  let out = dir.join(format!("w{index}-r{restart}.json"));
  let errf = std::fs::File::create(dir.join(format!("w{index}-r{restart}.stderr"))).unwrap();
  let child = Command::new(std::env::current_exe().unwrap())
    .args([
      "worker",
      id,
      tier.name(),
      &seed.to_string(),
      &index.to_string(),
      &n.to_string(),
      &cases.to_string(),
      &out.display().to_string(),
      &restart.to_string(),
    ])
    // the harness already runs one worker process per core; rayon pools of 16 threads in each would only spin
    .env("RAYON_NUM_THREADS", std::env::var("VERIF_RAYON_THREADS").unwrap_or_else(|_| "2".to_string()))
    .stdin(Stdio::null())
    .stdout(Stdio::null())
    .stderr(Stdio::from(errf))
    .spawn()
    .expect("spawn worker");
  Running { child, index, restart, cases, out, started: Instant::now() }
}

/// Run one case in a fresh child. Returns Ok(outcome json) or Err(description of the abort).
pub fn run_one_child(id: &str, tier: Tier, case: &Value, dir: &Path, timeout: Duration) -> Result<Value, String> {
  static N: std::sync::atomic::AtomicU64 = std::sync::atomic::AtomicU64::new(0);
  let k = N.fetch_add(1, std::sync::atomic::Ordering::Relaxed);
  let casefile = dir.join(format!("one-{k}.json"));
  std::fs::write(&casefile, serde_json::to_vec(case).unwrap()).unwrap();
  let errpath = dir.join(format!("one-{k}.stderr"));
  let errf = std::fs::File::create(&errpath).unwrap();
  let mut child = Command::new(std::env::current_exe().unwrap())
    .args(["one", id, tier.name(), &casefile.display().to_string()])
    .stdin(Stdio::null())
    .stdout(Stdio::piped())
    .stderr(Stdio::from(errf))
    .spawn()
    .expect("spawn one");
  let start = Instant::now();
  // drain stdout concurrently: a large report would otherwise fill the pipe and block the child
  let mut out_pipe = child.stdout.take().unwrap();
  let reader = std::thread::spawn(move || {
    let mut s = String::new();
    use std::io::Read;
    let _ = out_pipe.read_to_string(&mut s);
    s
  });
  let mut reader = Some(reader);
  loop {
    match child.try_wait() {
      Ok(Some(status)) => {
        let s = reader.take().map(|r| r.join().unwrap_or_default()).unwrap_or_default();
        let _ = std::fs::remove_file(&casefile);
        if status.success() {
          let _ = std::fs::remove_file(&errpath);
          return serde_json::from_str(&s).map_err(|e| format!("bad child output: {e}"));
        }
        let err = std::fs::read_to_string(&errpath).unwrap_or_default();
        let _ = std::fs::remove_file(&errpath);
        return Err(abort_class(&status, &err));
      }
      Ok(None) => {
        if start.elapsed() > timeout {
          let _ = child.kill();
          let _ = child.wait();
          return Err("timeout".into());
        }
        std::thread::sleep(Duration::from_millis(5));
      }
      Err(e) => return Err(format!("wait: {e}")),
    }
  }
}

fn abort_class(status: &std::process::ExitStatus, stderr: &str) -> String {
  use std::os::unix::process::ExitStatusExt;
  if stderr.contains("has overflowed its stack") || stderr.contains("stack overflow") {
    return "stack-overflow".into();
  }
  if let Some(sig) = status.signal() {
    return format!("signal-{sig}");
  }
  format!("exit-{}", status.code().unwrap_or(-1))
}

/// ddmin over the tape with a child process per candidate; keeps the same abort class.
fn minimize_tape(id: &str, tier: Tier, tape: Vec<u32>, class: &str, dir: &Path, budget: usize) -> Vec<u32> {
  let mut cur = tape;
  let mut runs = 0usize;
  let test = |cand: &Vec<u32>, runs: &mut usize| -> bool {
    *runs += 1;
    matches!(run_one_child(id, tier, &json!({"tape": cand}), dir, Duration::from_secs(60)), Err(c) if c == class)
  };
  let mut chunk = cur.len().div_ceil(2).max(1);
  while chunk >= 1 && runs < budget {
    let mut i = 0;
    let mut progressed = false;
    while i < cur.len() && runs < budget {
      let mut cand = cur.clone();
      let end = (i + chunk).min(cand.len());
      cand.drain(i..end);
      if test(&cand, &mut runs) {
        cur = cand;
        progressed = true;
      } else {
        i += chunk;
      }
    }
    if chunk == 1 && !progressed {
      break;
    }
    chunk = if chunk == 1 { if progressed { 1 } else { 0 } } else { chunk / 2 };
    if chunk == 0 {
      break;
    }
  }
  // lower values
  let mut i = 0;
  while i < cur.len() && runs < budget {
    if cur[i] != 0 {
      let mut cand = cur.clone();
      cand[i] = 0;
      if test(&cand, &mut runs) {
        cur = cand;
      }
    }
    i += 1;
  }
  cur
}

#[derive(Default)]
struct Merged {
  evaluations: u64,
  keys: HashSet<u64>,
  nontrivial_total: u64,
  labels: BTreeMap<String, u64>,
  discards: BTreeMap<String, u64>,
  known_hits: BTreeMap<String, u64>,
  samples: Vec<Value>,
  nontrivial_samples: Vec<Value>,
  failures: Vec<Value>,
  fixed_cases: u64,
  replays: u64,
  probes: Vec<Value>,
}

impl Merged {
  fn add(&mut self, v: &Value) {
    self.evaluations += v["evaluations"].as_u64().unwrap_or(0);
    self.nontrivial_total += v["nontrivial_total"].as_u64().unwrap_or(0);
    for k in v["nontrivial_keys"].as_array().cloned().unwrap_or_default() {
      if let Some(k) = k.as_u64() {
        self.keys.insert(k);
      }
    }
    for (name, target) in [("labels", &mut self.labels), ("discards", &mut self.discards), ("known_hits", &mut self.known_hits)] {
      if let Some(m) = v[name].as_object() {
        for (k, c) in m {
          *target.entry(k.clone()).or_default() += c.as_u64().unwrap_or(0);
        }
      }
    }
    for s in v["samples"].as_array().cloned().unwrap_or_default() {
      if self.samples.len() < 2 {
        self.samples.push(s);
      }
    }
    for s in v["nontrivial_samples"].as_array().cloned().unwrap_or_default() {
      if self.nontrivial_samples.len() < 4 {
        self.nontrivial_samples.push(s);
      }
    }
    for f in v["failures"].as_array().cloned().unwrap_or_default() {
      self.failures.push(f);
    }
    self.fixed_cases += v["fixed_cases"].as_u64().unwrap_or(0);
    self.replays += v["replays"].as_u64().unwrap_or(0);
    for p in v["probes"].as_array().cloned().unwrap_or_default() {
      self.probes.push(p);
    }
  }
}

pub fn run_check(prop: &'static dyn Prop, tier: Tier, seed: u64) -> i32 {
  let t0 = Instant::now();
  let id = prop.id();
  let params = prop.params(tier);
  let dir = scratch_dir(id);
  let all = findings::load();
  let known = findings::open_sigs(&all, id);
  let n = params.workers.max(1);
  let per = params.cases.div_ceil(n as u64);
  let mut running: Vec<Running> = (0..n).map(|i| spawn_worker(id, tier, seed, i, n, per, 0, &dir)).collect();
  let mut merged = Merged::default();
  let mut inconclusive: Vec<String> = vec![];
  let mut abort_failures: Vec<Value> = vec![];
  let timeout = Duration::from_secs(params.worker_timeout_s);

  while !running.is_empty() {
    let mut i = 0;
    let mut progressed = false;
    while i < running.len() {
      let done = match running[i].child.try_wait() {
        Ok(Some(status)) => Some(Some(status)),
        Ok(None) => {
          if running[i].started.elapsed() > timeout {
            let _ = running[i].child.kill();
            let _ = running[i].child.wait();
            Some(None)
          } else {
            None
          }
        }
        Err(_) => Some(None),
      };
      let Some(status) = done else {
        i += 1;
        continue;
      };
      progressed = true;
      let r = running.swap_remove(i);
      let inflight_path = PathBuf::from(format!("{}.inflight", r.out.display()));
      let progress_path = PathBuf::from(format!("{}.progress", r.out.display()));
      if let Ok(text) = std::fs::read_to_string(&r.out) {
        match serde_json::from_str::<Value>(&text) {
          Ok(v) => merged.add(&v),
          Err(e) => inconclusive.push(format!("worker {} wrote unreadable result: {e}", r.index)),
        }
        continue;
      }
      // no result file: timeout or abort
      let Some(status) = status else {
        inconclusive.push(format!("worker {} exceeded the {} s safety net", r.index, params.worker_timeout_s));
        continue;
      };
      let stderr = std::fs::read_to_string(dir.join(format!("w{}-r{}.stderr", r.index, r.restart))).unwrap_or_default();
      let class = abort_class(&status, &stderr);
      let inflight: Value = std::fs::read_to_string(&inflight_path).ok().and_then(|t| serde_json::from_str(&t).ok()).unwrap_or(Value::Null);
      if inflight.is_null() {
        inconclusive.push(format!("worker {} died ({class}) outside any case; stderr: {}", r.index, stderr.chars().take(400).collect::<String>()));
        continue;
      }
      // confirm alone
      let case = if inflight.get("tape").is_some() { json!({"tape": inflight["tape"]}) } else { json!({"artifact": inflight["artifact"]}) };
      match run_one_child(id, tier, &case, &dir, Duration::from_secs(120)) {
        Err(c) if c == class && c != "timeout" => {
          let sig = format!("abort/{class}");
          let mut rec = json!({"sig": sig, "detail": format!("process died ({class}) while running this case; confirmed in a fresh process"), "origin": format!("worker{}", r.index)});
          if let Some(t) = case.get("tape").and_then(|t| t.as_array()) {
            let tape: Vec<u32> = t.iter().map(|x| x.as_u64().unwrap_or(0) as u32).collect();
            let min = minimize_tape(id, tier, tape, &class, &dir, 300);
            rec["tape"] = json!(min);
          } else {
            rec["artifact"] = case["artifact"].clone();
          }
          let is_known = known.contains(&sig);
          abort_failures.push(rec);
          if is_known && r.restart < 30 {
            let done_cases = std::fs::read_to_string(&progress_path).ok().and_then(|s| s.trim().parse::<u64>().ok()).unwrap_or(0);
            let remaining = r.cases.saturating_sub(done_cases + 1);
            if remaining > 0 {
              running.push(spawn_worker(id, tier, seed, r.index, n, remaining, r.restart + 1, &dir));
            }
          }
        }
        other => {
          inconclusive.push(format!(
            "worker {} died ({class}) but the in-flight case alone gives {:?}; not attributable",
            r.index,
            other.map(|_| "ok".to_string())
          ));
        }
      }
    }
    if !progressed {
      std::thread::sleep(Duration::from_millis(20));
    }
  }

  // abort failures: render artifact where we have a tape (in-process generation is safe)
  for mut f in abort_failures {
    let sig = f["sig"].as_str().unwrap_or("").to_string();
    if known.contains(&sig) {
      *merged.known_hits.entry(sig).or_default() += 1;
      continue;
    }
    if let Some(t) = f.get("tape").and_then(|t| t.as_array()) {
      let data: Vec<u32> = t.iter().map(|x| x.as_u64().unwrap_or(0) as u32).collect();
      let mut tape = super::Tape::new(data);
      if let Ok(a) = super::guard(|| prop.generate(&mut tape, tier)) {
        f["artifact"] = a;
      }
    }
    merged.failures.push(f);
  }

  // ---- report
  let mut exit = 0;
  for fd in findings::open_for(&all, id) {
    let probe = merged.probes.iter().find(|p| p["signature"].as_str() == Some(fd.signature.as_str()));
    let hits = merged.known_hits.get(&fd.signature).copied().unwrap_or(0);
    let reproduced = probe.and_then(|p| p["reproduced"].as_bool()).unwrap_or(false) || hits > 0;
    if reproduced {
      println!("KNOWN-FINDING: property={id} {} [signature={}; probe={}; search hits={hits}]", fd.what, fd.signature, probe.map(|p| p["reproduced"].to_string()).unwrap_or("none".into()));
    } else {
      println!("NOTE: property={id} listed finding not observed in this run: {} [signature={}]", fd.what, fd.signature);
    }
  }
  let viol_dir = super::verif_root().join("out").join("violations").join(id);
  let _ = std::fs::remove_dir_all(&viol_dir);
  let mut seen_sigs: HashSet<String> = HashSet::new();
  let mut violations = 0;
  for f in &merged.failures {
    let sig = f["sig"].as_str().unwrap_or("?").to_string();
    if !seen_sigs.insert(sig.clone()) {
      continue;
    }
    violations += 1;
    let _ = std::fs::create_dir_all(&viol_dir);
    let path = viol_dir.join(format!("{:016x}.json", super::fnv(sig.as_bytes())));
    let rec = json!({"property": id, "signature": sig, "detail": f["detail"], "origin": f["origin"], "tier": tier.name(), "seed": seed,
      "tape": f.get("tape").cloned().unwrap_or(Value::Null), "artifact": f.get("artifact").cloned().unwrap_or(Value::Null)});
    let _ = std::fs::write(&path, serde_json::to_string_pretty(&rec).unwrap());
    println!("VIOLATION property={id} replay={}", path.display());
    println!("  signature: {sig}");
    let detail = f["detail"].as_str().unwrap_or("");
    for line in detail.lines().take(12) {
      println!("  | {line}");
    }
    exit = 1;
  }
  for (k, v) in &merged.discards {
    if k.starts_with("INFRA:") {
      inconclusive.push(format!("{v} cases could not be decided: {k}"));
    }
  }
  if exit == 0 && !inconclusive.is_empty() {
    for m in &inconclusive {
      println!("INCONCLUSIVE property={id}: {m}");
    }
    exit = 2;
  }

  // ---- evidence
  let mut samples = merged.nontrivial_samples.clone();
  samples.extend(merged.samples.iter().cloned());
  if samples.is_empty() {
    samples.push(json!("(no sample recorded)"));
  }
  let p = prop.params(tier);
  let mut coverage = json!({
    "evaluations": merged.evaluations,
    "distinct_nontrivial": merged.keys.len(),
    "nontrivial_total": merged.nontrivial_total,
    "rule": prop.rule(),
    "samples": samples,
    "distribution": merged.labels,
    "discarded_by_reason": merged.discards,
    "known_findings_hit_in_search": merged.known_hits,
    "known_finding_probes": merged.probes,
    "replays_run": merged.replays,
    "fixed_cases_run": merged.fixed_cases,
    "workers": n,
    "cases_requested": p.cases,
    "max_tape_len": p.tape_len,
    "build_profile": "release-like: opt-level=2, debug-assertions=off, overflow-checks=off, --cfg samlang_verif",
    "inconclusive": inconclusive,
  });
  if let Some(Value::Object(extra)) = prop.extra_evidence() {
    for (k, v) in extra {
      coverage[k] = v;
    }
  }
  let ev = json!({
    "property_id": id,
    "tier": tier.name(),
    "seed": seed,
    "level": prop.level(),
    "coverage": coverage,
    "assumptions": prop.assumptions(),
    "wall_s": (t0.elapsed().as_millis() as f64) / 1000.0,
    "violations": violations,
  });
  let evdir = super::verif_root().join("evidence");
  let _ = std::fs::create_dir_all(&evdir);
  std::fs::write(evdir.join(format!("{id}.json")), serde_json::to_string_pretty(&ev).unwrap()).unwrap();
  let _ = std::fs::remove_dir_all(&dir);
  println!(
    "{id} {}: evaluations={} distinct_nontrivial={} violations={} wall={:.1}s exit={exit}",
    tier.name(),
    merged.evaluations,
    merged.keys.len(),
    violations,
    t0.elapsed().as_secs_f64()
  );
  exit
}

pub fn run_replay(prop: &'static dyn Prop, tier: Tier, file: &str) -> i32 {
  let id = prop.id();
  let dir = scratch_dir(id);
  let text = std::fs::read_to_string(file).expect("replay file");
  let v: Value = serde_json::from_str(&text).expect("replay json");
  let case = if !v.get("artifact").map(|a| a.is_null()).unwrap_or(true) {
    json!({"artifact": v["artifact"]})
  } else if v.get("tape").is_some() {
    json!({"tape": v["tape"]})
  } else {
    json!({"artifact": v})
  };
  let res = run_one_child(id, tier, &case, &dir, Duration::from_secs(600));
  let _ = std::fs::remove_dir_all(&dir);
  let all = findings::load();
  let known = findings::open_sigs(&all, id);
  match res {
    Ok(o) => {
      let mut exit = 0;
      for f in o["failures"].as_array().cloned().unwrap_or_default() {
        let sig = f["sig"].as_str().unwrap_or("");
        if known.contains(sig) {
          println!("KNOWN-FINDING: property={id} signature={sig}");
        } else {
          println!("VIOLATION property={id} replay={file}");
          println!("  signature: {sig}");
          for line in f["detail"].as_str().unwrap_or("").lines().take(30) {
            println!("  | {line}");
          }
          exit = 1;
        }
      }
      if exit == 0 {
        println!("{id} replay {file}: no violation");
      }
      exit
    }
    Err(c) => {
      let sig = format!("abort/{c}");
      if c == "timeout" {
        println!("INCONCLUSIVE property={id}: replay timed out");
        return 2;
      }
      if known.contains(&sig) {
        println!("KNOWN-FINDING: property={id} signature={sig}");
        0
      } else {
        println!("VIOLATION property={id} replay={file}");
        println!("  signature: {sig}");
        1
      }
    }
  }
}
