//! C12 – compilation results depend only on the sources, not on hashing or scheduling.
//! Every case is compiled in several *fresh processes* (fresh HashMap seeds, hence fresh module /
//! function / type enumeration orders) with different RAYON_NUM_THREADS.

use super::run_common::*;
use crate::engine::{Outcome, Params, Prop, Tape, Tier, fnv};
use crate::generators::faults::{fault_kinds, inject};
use crate::generators::progen::gen_program;
use serde_json::{Value, json};
use std::process::{Command, Stdio};

pub struct C12;

pub const THREADS: &[&str] = &["1", "2", "3", "4", "8", "16", "16", "5"];

/// child entry point: compile the artifact, print one JSON line
pub fn compile_child(art: &Value) -> Value {
  let (mods, entry) = mods_of(art);
  let order: usize = std::env::var("VERIF_MODULE_ORDER").ok().and_then(|s| s.parse().ok()).unwrap_or(0);
  let extra: Vec<Vec<String>> = art["extra_entries"].as_array().cloned().unwrap_or_default().iter().map(|e| e.as_array().cloned().unwrap_or_default().iter().map(|x| x.as_str().unwrap_or("").to_string()).collect()).collect();
  match crate::model::exec::compile_in_order_with_entries(&mods, &entry, &extra, order) {
    crate::model::exec::CompileOutcome::Ok(c) => json!({"verdict": "accepted", "wasm_hash": fnv(&c.wasm), "ts_hash": fnv(c.ts_code.as_bytes()), "wasm_b64": b64(&c.wasm), "ts": c.ts_code, "loader": c.loader, "main": c.main}),
    crate::model::exec::CompileOutcome::Rejected(m) => json!({"verdict": "rejected", "diagnostics": m}),
    crate::model::exec::CompileOutcome::Panicked(e) => json!({"verdict": "panicked", "where": e.0, "message": e.1}),
  }
}

fn b64(bytes: &[u8]) -> String {
  const T: &[u8; 64] = b"ABCDEFGHIJKLMNOPQRSTUVWXYZabcdefghijklmnopqrstuvwxyz0123456789+/";
  let mut out = String::with_capacity(bytes.len() * 4 / 3 + 4);
  for c in bytes.chunks(3) {
    let b = [c[0], *c.get(1).unwrap_or(&0), *c.get(2).unwrap_or(&0)];
    let n = ((b[0] as u32) << 16) | ((b[1] as u32) << 8) | b[2] as u32;
    out.push(T[(n >> 18) as usize & 63] as char);
    out.push(T[(n >> 12) as usize & 63] as char);
    out.push(if c.len() > 1 { T[(n >> 6) as usize & 63] as char } else { '=' });
    out.push(if c.len() > 2 { T[n as usize & 63] as char } else { '=' });
  }
  out
}

fn unb64(s: &str) -> Vec<u8> {
  let mut out = vec![];
  let val = |c: u8| -> u32 {
    match c {
      b'A'..=b'Z' => (c - b'A') as u32,
      b'a'..=b'z' => (c - b'a') as u32 + 26,
      b'0'..=b'9' => (c - b'0') as u32 + 52,
      b'+' => 62,
      b'/' => 63,
      _ => 0,
    }
  };
  for c in s.as_bytes().chunks(4) {
    if c.len() < 4 {
      break;
    }
    let n = (val(c[0]) << 18) | (val(c[1]) << 12) | (val(c[2]) << 6) | val(c[3]);
    out.push((n >> 16) as u8);
    if c[2] != b'=' {
      out.push((n >> 8) as u8);
    }
    if c[3] != b'=' {
      out.push(n as u8);
    }
  }
  out
}

/// the error blocks of a rendered diagnostics text, stably grouped by module name (the trailing
/// "Found n errors." line stays last)
fn by_module(d: &str) -> Vec<String> {
  let mut blocks: Vec<String> = vec![];
  for line in d.split_inclusive('\n') {
    if line.starts_with("Error --") || line.starts_with("Found ") || blocks.is_empty() {
      blocks.push(String::new());
    }
    blocks.last_mut().unwrap().push_str(line);
  }
  let module = |b: &String| -> (u8, String) {
    if !b.starts_with("Error --") {
      return (1, String::new());
    }
    let head = b.lines().next().unwrap_or("");
    let file = head.rsplit(' ').next().unwrap_or("");
    (0, file.split(".sam:").next().unwrap_or("").to_string())
  };
  blocks.sort_by_key(module);
  blocks
}

fn sorted_blocks(b: &[String]) -> Vec<String> {
  let mut v = b.to_vec();
  v.sort();
  v
}

fn without_examples(b: &[String]) -> Vec<String> {
  b.iter().map(|x| x.lines().filter(|l| !l.starts_with("Here is an example of a non-matching value")).collect::<Vec<_>>().join("\n")).collect()
}

fn run_child(art_path: &std::path::Path, threads: &str, order: usize) -> Option<Value> {
  let out = Command::new(std::env::current_exe().ok()?).args(["compile-child", &art_path.display().to_string()]).env("RAYON_NUM_THREADS", threads).env("VERIF_MODULE_ORDER", order.to_string()).stdin(Stdio::null()).stderr(Stdio::null()).output().ok()?;
  serde_json::from_slice(&out.stdout).ok()
}

/// Several entry modules over mutually recursive enums and an enum that wraps one of them: how an
/// enum is laid out may depend on which type the specialiser meets first, and the entry points meet
/// them in different orders. Only agreement between processes is judged.
fn recursive_enum_host(t: &mut Tape) -> Value {
  let wrap = ["Tree", "Forest"][t.choose(2)];
  let mut classes = vec![
    "class Tree(Node(Forest), Leaf) {\n  function leaf(): Tree = Tree.Leaf()\n}\n".to_string(),
    "class Forest(Grove(Tree), Bare) {\n  function bare(): Forest = Forest.Bare()\n}\n".to_string(),
    format!("class Slot(Filled({wrap}), Vacant) {{\n  method describe(): Str =\n    match (this) {{\n      Filled(_) -> \"filled\",\n      Vacant -> \"vacant\",\n    }}\n}}\n"),
  ];
  if t.bool(1, 2) {
    classes.push("class Pot(Planted(Slot), Empty) {\n  method describe(): Str =\n    match (this) {\n      Planted(s) -> \"planted:\" :: s.describe(),\n      Empty -> \"empty\",\n    }\n}\n".to_string());
  }
  let has_pot = classes.len() == 4;
  let k = t.choose(classes.len());
  classes.rotate_left(k);
  let shapes = classes.join("\n");
  let inner = if wrap == "Tree" { ["Tree.Leaf()", "Tree.Node(Forest.Bare())"] } else { ["Forest.Bare()", "Forest.Grove(Tree.Leaf())"] };
  let main_text = |t: &mut Tape| -> String {
    let mut lines = vec![];
    for _ in 0..1 + t.choose(4) {
      lines.push(match t.choose(if has_pot { 7 } else { 5 }) {
        0 => "    let _ = Tree.Leaf();\n".to_string(),
        1 => "    let _ = Forest.Bare();\n".to_string(),
        2 => format!("    let _ = Process.println(Slot.Filled({}).describe());\n", inner[t.choose(2)]),
        3 => "    let _ = Process.println(Slot.Vacant().describe());\n".to_string(),
        4 => "    let _ = Forest.Grove(Tree.Node(Forest.Bare()));\n".to_string(),
        5 => format!("    let _ = Process.println(Pot.Planted(Slot.Filled({})).describe());\n", inner[t.choose(2)]),
        _ => "    let _ = Process.println(Pot.Empty().describe());\n".to_string(),
      });
    }
    let imports = if has_pot { "import { Tree, Forest, Slot, Pot } from Shapes;\n\n" } else { "import { Tree, Forest, Slot } from Shapes;\n\n" };
    format!("{imports}class Main {{\n  function main(): unit = {{\n{}    let _ = Process.println(\"done\");\n  }}\n}}\n", lines.join(""))
  };
  let n_entries = 2 + t.choose(2);
  let names = ["Report", "Census", "Audit"];
  let mut mods: Mods = vec![(vec!["Shapes".to_string()], shapes)];
  for name in names.iter().take(n_entries) {
    mods.push((vec![name.to_string()], main_text(t)));
  }
  let which = t.choose(n_entries);
  let mut art = art_of(&mods, &[names[which].to_string()], &["recursive-enums-several-entry-modules"]);
  art["extra_entries"] = json!(names.iter().take(n_entries).enumerate().filter(|(i, _)| *i != which).map(|(_, n)| vec![n.to_string()]).collect::<Vec<_>>());
  art["faults"] = json!([]);
  art
}

/// 2-4 modules with 20-60 independent one-line type errors each (more than a hundred diagnostics in
/// total, spread over modules): everything that collects, caps, merges or sorts diagnostics across
/// modules sees a large set whose insertion order differs between processes
fn many_errors_host(t: &mut Tape) -> Value {
  let names = ["Alpha", "Beta", "Gamma", "Delta"];
  let n = 2 + t.choose(3);
  let mut mods: Mods = vec![];
  for name in names.iter().take(n) {
    let k = 20 + t.choose(41);
    let mut s = format!("class {name} {{\n");
    for i in 0..k {
      s.push_str(&match t.choose(4) {
        0 => format!("  function f{i}(): int = true\n\n"),
        1 => format!("  function f{i}(): bool = {i}\n\n"),
        2 => format!("  function f{i}(): Str = unbound{i}\n\n"),
        _ => format!("  function f{i}(): int = \"s{i}\" + 1\n\n"),
      });
    }
    s.push_str("}\n");
    mods.push((vec![name.to_string()], s));
  }
  mods.push((vec!["Entry".to_string()], "class Main {\n  function main(): unit = {\n    let _ = Process.println(\"entry\");\n  }\n}\n".to_string()));
  let mut art = art_of(&mods, &["Entry".to_string()], &["many-diagnostics-in-several-modules"]);
  art["faults"] = json!([{"kind": "many-errors", "site": "generated"}]);
  art
}

impl Prop for C12 {
  fn id(&self) -> &'static str {
    "C12"
  }
  fn rule(&self) -> String {
    "G1 programs chosen to amplify order sensitivity (2-3 modules, up to 7 classes, many lambdas / string literals / generic instantiations / recursive enums), mutants of them carrying 1-3 injected static errors (so that several diagnostics exist and their order matters, incl. interfaces with several unimplemented members), and (1 case in 5) 1-3 modules of C07's generated pattern matrices (non-exhaustive matches with several possible witnesses); each case is compiled by compile_sources in 8 fresh processes (fresh hash seeds) with RAYON_NUM_THREADS in {1,2,3,4,5,8,16,16}; oracle (differential across processes): same verdict, byte-identical rendered diagnostics, and - when accepted - every process's emitted WebAssembly and TypeScript have the same observable behaviour (executed in node 22, printed lines and end compared pairwise); byte identity of the artefacts is recorded as a metric only; non-trivial = every case (the 8 runs always differ in hash seeds and thread counts) - evidence also reports in how many cases the artefact hashes differed; distinct = hash of the program text".into()
  }
  fn assumptions(&self) -> Vec<String> {
    vec![
      "the technique samples hash seeds and rayon schedules, it does not control them: an interleaving-dependent fault with low probability per run may be missed (DESIGN.md section 4, C12)".into(),
      "cases on which the compiler panics are C03's findings; the panic must however be deterministic (same verdict in every process)".into(),
    ]
  }
  fn params(&self, tier: Tier) -> Params {
    match tier {
      Tier::Quick => Params { cases: 1400, tape_len: 2500, workers: 14, stack_mb: 64, worker_timeout_s: 1500, shrink_iters: 60 },
      Tier::Thorough => Params { cases: 6000, tape_len: 5000, workers: 16, stack_mb: 64, worker_timeout_s: 5 * 3600, shrink_iters: 60 },
    }
  }
  fn generate(&self, t: &mut Tape, tier: Tier) -> Value {
    if t.bool(1, 5) {
      // hosts with pattern matrices (C07's generator): non-exhaustive matches admit several witnesses
      let n = 1 + t.choose(3);
      let mods: Mods = (0..n).map(|i| (vec![format!("P{i}")], super::c07::gen_case(t)["text"].as_str().unwrap_or("").to_string())).collect();
      let mut art = art_of(&mods, &["P0".to_string()], &["pattern-matrices"]);
      art["faults"] = json!([{"kind": "pattern-matrices", "site": "generated"}]);
      return art;
    }
    if t.bool(1, 10) {
      return recursive_enum_host(t);
    }
    if t.bool(1, 12) {
      return many_errors_host(t);
    }
    let mut cfg = super::behav::cfg_for("C12", tier);
    cfg.max_classes = 7;
    cfg.node_budget = 360;
    cfg.force_multi_module = true;
    let (mut ir, feats) = gen_program(t, cfg);
    let mut faults = vec![];
    if t.bool(1, 2) {
      for _ in 0..1 + t.choose(3) {
        let k = t.choose(fault_kinds().len());
        if let Some(f) = inject(&mut ir, t, k) {
          faults.push(json!({"kind": f.kind, "site": f.site}));
        }
      }
    }
    let feats: Vec<&str> = feats;
    let mut art = art_of(&ir.render(), &ir.entry, &feats);
    art["faults"] = json!(faults);
    art
  }
  fn check(&self, art: &Value) -> Outcome {
    let mut out = Outcome::default();
    let (mods, _entry) = mods_of(art);
    out.key = fnv(describe(&mods).as_bytes());
    let dir = crate::engine::verif_root().join("out").join("work");
    let _ = std::fs::create_dir_all(&dir);
    let path = dir.join(format!("c12-{}-{:016x}.json", std::process::id(), out.key));
    if std::fs::write(&path, serde_json::to_vec(art).unwrap()).is_err() {
      return Outcome::discarded("INFRA:cannot-write-scratch-file");
    }
    let mut results: Vec<(String, Value)> = vec![];
    for (i, th) in THREADS.iter().enumerate() {
      // module registration order: as given, reversed, then rotations
      match run_child(&path, th, [0, 1, 2, 5, 4, 7, 0, 3][i % 8]) {
        Some(v) => results.push((th.to_string(), v)),
        None => {
          let _ = std::fs::remove_file(&path);
          return Outcome::discarded("INFRA:compile-child-failed");
        }
      }
    }
    let _ = std::fs::remove_file(&path);
    let verdicts: Vec<&str> = results.iter().map(|(_, v)| v["verdict"].as_str().unwrap_or("?")).collect();
    out.label(format!("verdict:{}", verdicts[0]));
    out.nontrivial = true;
    out.sample = Some(json!({"modules": mods.len(), "faults": art["faults"], "verdict": verdicts[0], "program": super::fmt_common::short(&describe(&mods), 500)}));
    let prog = || describe(&mods);
    if verdicts.iter().any(|v| *v != verdicts[0]) {
      // name the verdicts and, for panics, the site: a schedule-dependent compiler panic is a different finding from a flipping accept / reject
      let mut kinds: Vec<String> = results.iter().map(|(_, v)| match v["verdict"].as_str().unwrap_or("?") { "panicked" => format!("panicked({})", v["where"].as_str().unwrap_or("?")), x => x.to_string() }).collect();
      kinds.sort();
      kinds.dedup();
      out.fail(format!("verdict-differs-between-processes/{}", kinds.join("+")), format!("verdicts by RAYON_NUM_THREADS {:?}: {:?}\npanic messages: {:?}\n{}", THREADS, verdicts, results.iter().filter_map(|(_, v)| v["message"].as_str().map(|m| m.chars().take(160).collect::<String>())).collect::<Vec<_>>(), prog()));
      return out;
    }
    match verdicts[0] {
      "rejected" => {
        let d0 = results[0].1["diagnostics"].as_str().unwrap_or("");
        let n0 = by_module(d0);
        for (th, v) in &results[1..] {
          let d = v["diagnostics"].as_str().unwrap_or("");
          if d == d0 {
            continue;
          }
          let n = by_module(d);
          let show = |a: &str, b: &str| {
            let i = a.bytes().zip(b.bytes()).position(|(x, y)| x != y).unwrap_or(a.len().min(b.len()));
            let lo = (0..=i.saturating_sub(300)).rev().find(|k| a.is_char_boundary(*k) && b.is_char_boundary(*k)).unwrap_or(0);
            let cut = |t: &str| t.get(lo..).map(|x| x.chars().take(700).collect::<String>()).unwrap_or_default();
            format!("--- first ---\n{}\n--- second ---\n{}", cut(a), cut(b))
          };
          if n == n0 {
            // same errors, same order inside every module: only the order of the modules differs
            if !out.failures.iter().any(|f| f.sig.ends_with("/module-order")) {
              out.fail("diagnostics-differ-between-processes/module-order", format!("the errors of different modules are printed in the order in which the modules were registered (runs 0 and RAYON_NUM_THREADS={th} registered them in different orders):\n{}\n{}", show(d0, d), prog()));
            }
            continue;
          }
          let class = if sorted_blocks(&n) == sorted_blocks(&n0) { "order-within-module" } else if without_examples(&n) == without_examples(&n0) { "counterexample-choice" } else { "content" };
          out.fail(format!("diagnostics-differ-between-processes/{class}"), format!("rendered diagnostics differ between RAYON_NUM_THREADS={} and {} (after grouping by module):\n{}\n{}", THREADS[0], th, show(&n0.join(""), &n.join("")), prog()));
          return out;
        }
        if d0.matches("Error ---").count() >= 2 {
          out.label("diagnostics:>=2");
        }
      }
      "panicked" => {
        let w0 = results[0].1["where"].as_str().unwrap_or("").to_string();
        if results.iter().any(|(_, v)| v["where"].as_str().unwrap_or("") != w0) {
          // which of several recorded C03 defects is hit first depends on the schedule; the verdict is the same
          out.label("panic-site-differs-between-processes(C03 findings)");
        }
        out.label("verdict:panicked(C03)");
      }
      _ => {
        let hashes: std::collections::HashSet<u64> = results.iter().map(|(_, v)| v["wasm_hash"].as_u64().unwrap_or(0)).collect();
        out.label(if hashes.len() > 1 { "artefacts:differ-bytewise" } else { "artefacts:byte-identical" });
        // run every distinct artefact
        let mut seen: Vec<(u64, u64)> = vec![];
        let mut runs: Vec<(String, crate::engine::node::Exec, crate::engine::node::Exec)> = vec![];
        for (th, v) in &results {
          let key = (v["wasm_hash"].as_u64().unwrap_or(0), v["ts_hash"].as_u64().unwrap_or(0));
          if seen.contains(&key) {
            continue;
          }
          seen.push(key);
          let wasm = unb64(v["wasm_b64"].as_str().unwrap_or(""));
          let r = with_node(|n| {
            let w = n.run_wasm(&wasm, v["loader"].as_str().unwrap_or(""), v["main"].as_str().unwrap_or(""), std::time::Duration::from_secs(run_timeout_s()));
            let t = n.run_ts(v["ts"].as_str().unwrap_or(""), std::time::Duration::from_secs(run_timeout_s()));
            (w, t)
          });
          let Some((w, t)) = r else { return Outcome::discarded("INFRA:node-unavailable") };
          if w.end == "timeout" || t.end == "timeout" || w.end == "infra" || t.end == "infra" {
            out.label("behaviour:not-compared(timeout)");
            return out;
          }
          runs.push((th.clone(), w, t));
        }
        for (th, w, t) in &runs[1..] {
          let (w0, t0) = (&runs[0].1, &runs[0].2);
          // how far a run gets before the call stack is exhausted depends on frame sizes, not on the sources
          if w.end == "stack" && w0.end == "stack" && t.end == "stack" && t0.end == "stack" {
            out.label("behaviour:stack-exhaustion(lines not compared)");
            continue;
          }
          // engine messages carry function indices / offsets; only a panic's message is the program's own
          if w.lines != w0.lines || w.end != w0.end || (w.end == "panic" && w.message != w0.message) {
            out.fail("behaviour-differs-between-processes/wasm", format!("RAYON_NUM_THREADS={} vs {}: {} | {} vs {}\n{}", runs[0].0, th, first_diff(&w0.lines, &w.lines), exec_str(w0), exec_str(w), prog()));
            return out;
          }
          if t.lines != t0.lines || t.end != t0.end || (t.end == "panic" && t.message != t0.message) {
            out.fail("behaviour-differs-between-processes/ts", format!("RAYON_NUM_THREADS={} vs {}: {} | {} vs {}\n{}", runs[0].0, th, first_diff(&t0.lines, &t.lines), exec_str(t0), exec_str(t), prog()));
            return out;
          }
        }
        out.label(format!("distinct-artefacts:{}", runs.len()));
      }
    }
    out
  }
}
