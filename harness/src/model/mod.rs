pub mod astwalk;
pub mod canon;
pub mod front;
pub mod sexp;
pub mod toks;
