//! C08 – formatting never changes the program (round trip print∘parse on the syntax tree).

use super::fmt_common::*;
use crate::engine::{Outcome, Params, Prop, Tape, Tier, fnv, panic_sig};
use crate::model::{canon::Canon, front, sexp};
use samlang_ast::source::{Module, expr};
use serde_json::{Value, json};

pub struct C08;

fn op_class(op: expr::BinaryOperator) -> &'static str {
  use expr::BinaryOperator::*;
  match op {
    MUL | DIV | MOD => "mul",
    PLUS | MINUS => "add",
    CONCAT => "concat",
    LT | LE | GT | GE | EQ | NE => "cmp",
    AND => "and",
    OR => "or",
  }
}

/// labels for operator nestings, and "needs care" literals
fn classify(m: &Module<()>, heap: &samlang_heap::Heap, labels: &mut Vec<String>) -> bool {
  let mut interesting = false;
  fn walk(e: &expr::E<()>, heap: &samlang_heap::Heap, labels: &mut Vec<String>, interesting: &mut bool) {
    use expr::E;
    match e {
      E::Literal(_, samlang_ast::source::Literal::String(s)) => {
        let s = s.as_str(heap);
        if s.contains('"') || s.contains('\\') {
          labels.push("lit:string-needing-escape".into());
          *interesting = true;
        }
      }
      E::Literal(_, samlang_ast::source::Literal::Int(i)) => {
        if *i == i32::MIN {
          labels.push("lit:INT_MIN".into());
          *interesting = true;
        }
      }
      E::Literal(..) | E::LocalId(..) | E::ClassId(..) => {}
      E::Tuple(_, l) => l.expressions.iter().for_each(|x| walk(x, heap, labels, interesting)),
      E::FieldAccess(f) => walk(&f.object, heap, labels, interesting),
      E::MethodAccess(f) => walk(&f.object, heap, labels, interesting),
      E::Unary(u) => {
        match u.argument.as_ref() {
          E::Unary(_) => {
            labels.push("nest:unary/unary".into());
            *interesting = true;
          }
          E::Binary(_) => {
            labels.push("nest:unary/binary".into());
            *interesting = true;
          }
          E::Lambda(_) | E::IfElse(_) | E::Match(_) => {
            labels.push("nest:unary/low-precedence".into());
            *interesting = true;
          }
          _ => {}
        }
        walk(&u.argument, heap, labels, interesting)
      }
      E::Call(c) => {
        if !matches!(c.callee.as_ref(), E::LocalId(..) | E::ClassId(..) | E::FieldAccess(_) | E::MethodAccess(_) | E::Call(_)) {
          labels.push("nest:call/complex-callee".into());
          *interesting = true;
        }
        walk(&c.callee, heap, labels, interesting);
        c.arguments.expressions.iter().for_each(|x| walk(x, heap, labels, interesting));
      }
      E::Binary(b) => {
        for (side, child) in [("L", &b.e1), ("R", &b.e2)] {
          match child.as_ref() {
            E::Binary(cb) => {
              labels.push(format!("nest:{}/{}/{}", op_class(b.operator), op_class(cb.operator), side));
              *interesting = true;
            }
            E::Lambda(_) | E::IfElse(_) | E::Match(_) => {
              labels.push(format!("nest:{}/low-precedence/{}", op_class(b.operator), side));
              *interesting = true;
            }
            E::FieldAccess(_) if side == "L" && b.operator == expr::BinaryOperator::LT => {
              labels.push("nest:field-access-lt".into());
              *interesting = true;
            }
            _ => {}
          }
        }
        walk(&b.e1, heap, labels, interesting);
        walk(&b.e2, heap, labels, interesting);
      }
      E::IfElse(i) => walk_if(i, heap, labels, interesting),
      E::Match(m) => {
        walk(&m.matched, heap, labels, interesting);
        m.cases.iter().for_each(|c| walk(&c.body, heap, labels, interesting));
      }
      E::Lambda(l) => walk(&l.body, heap, labels, interesting),
      E::Block(b) => walk_block(b, heap, labels, interesting),
    }
  }
  fn walk_block(b: &expr::Block<()>, heap: &samlang_heap::Heap, labels: &mut Vec<String>, interesting: &mut bool) {
    for s in &b.statements {
      match s {
        expr::Statement::Declaration(d) => walk(&d.assigned_expression, heap, labels, interesting),
        expr::Statement::Expression(e) => walk(e, heap, labels, interesting),
      }
    }
    if let Some(e) = &b.expression {
      walk(e, heap, labels, interesting)
    }
  }
  fn walk_if(i: &expr::IfElse<()>, heap: &samlang_heap::Heap, labels: &mut Vec<String>, interesting: &mut bool) {
    match i.condition.as_ref() {
      expr::IfElseCondition::Expression(c) | expr::IfElseCondition::Guard(_, c) => walk(c, heap, labels, interesting),
    }
    walk_block(&i.e1, heap, labels, interesting);
    match i.e2.as_ref() {
      expr::IfElseOrBlock::IfElse(x) => walk_if(x, heap, labels, interesting),
      expr::IfElseOrBlock::Block(b) => walk_block(b, heap, labels, interesting),
    }
  }
  for t in &m.toplevels {
    if let samlang_ast::source::Toplevel::Class(c) = t {
      for mem in &c.members.members {
        walk(&mem.body, heap, labels, &mut interesting);
      }
    }
  }
  labels.sort();
  labels.dedup();
  interesting
}

impl Prop for C08 {
  fn id(&self) -> &'static str {
    "C08"
  }
  fn rule(&self) -> String {
    "syntactically valid modules generated production-by-production from the grammar (G5: every operator nesting with and without explicit parentheses, unary chains, lambdas/tuples/blocks/if/match in operand and callee positions, every literal form, explicit type arguments, patterns, annotations) x widths, plus every tests/*.sam and std/*.sam; oracle: t1 = print(parse(t0)) must parse without syntax error and canon(parse(t1)) == canon(parse(t0)) (structural dump without locations/comments, imports as a set); non-trivial = the tree contains an operator nesting where parenthesisation matters (binary-in-binary, unary over unary/binary, low-precedence construct as operand, complex callee) or a literal needing escaping / INT_MIN; distinct = hash of the canonical dump".into()
  }
  fn assumptions(&self) -> Vec<String> {
    vec![
      "the parser is the reader of both texts; its own faithfulness to the text is checked by C14 (positions) and C05 (token conservation)".into(),
      "inputs on which the parser reports a syntax error are outside the property's domain and are discarded (counted)".into(),
    ]
  }
  fn params(&self, tier: Tier) -> Params {
    match tier {
      Tier::Quick => Params { cases: 40_000, tape_len: 1200, workers: 14, stack_mb: 8, worker_timeout_s: 900, shrink_iters: 4000 },
      Tier::Thorough => Params { cases: 800_000, tape_len: 4000, workers: 16, stack_mb: 8, worker_timeout_s: 4 * 3600, shrink_iters: 4000 },
    }
  }
  fn generate(&self, t: &mut Tape, tier: Tier) -> Value {
    gen_text(t, tier, Profile::Structure)
  }
  fn fixed_cases(&self, tier: Tier) -> Vec<Value> {
    repo_fixed_cases(if tier == Tier::Quick { &WIDTHS[..2] } else { WIDTHS })
  }
  fn check(&self, art: &Value) -> Outcome {
    let mut out = Outcome::default();
    let text = art["text"].as_str().unwrap_or("");
    let width = art["width"].as_u64().unwrap_or(100) as usize;
    let p0 = match front::parse(text, &["Test"]) {
      Ok(p) => p,
      Err(_) => return Outcome::discarded("parser-panics-on-input(C05)"),
    };
    if !p0.syntax_errors.is_empty() {
      return Outcome::discarded("input-has-syntax-errors");
    }
    let canon0 = Canon::new(&p0.heap).module(&p0.module);
    out.key = fnv(canon0.as_bytes());
    let mut labels = vec![];
    out.nontrivial = classify(&p0.module, &p0.heap, &mut labels);
    out.labels = labels;
    out.label(format!("width:{width}"));
    out.sample = Some(json!({"text": short(text, 600), "width": width}));
    let t1 = match front::print(&p0, width) {
      Ok(t) => t,
      Err(e) => {
        out.fail(panic_sig("print", &e), format!("printer panicked: {}\ninput:\n{}", e.1, short(text, 2000)));
        return out;
      }
    };
    let p1 = match front::parse(&t1, &["Test"]) {
      Ok(p) => p,
      Err(e) => {
        out.fail(panic_sig("reparse", &e), format!("parser panicked on formatter output: {}\noutput:\n{}", e.1, short(&t1, 2000)));
        return out;
      }
    };
    if !p1.syntax_errors.is_empty() {
      let (loc, msg) = &p1.syntax_errors[0];
      // context: tokens around the error position in t1
      let toks = crate::model::toks::tokenize(&t1);
      let idx = toks.iter().position(|t| (t.line, t.col) >= (loc.start.0, loc.start.1)).unwrap_or(toks.len());
      let ctx: Vec<String> = toks[idx.saturating_sub(3)..(idx + 1).min(toks.len())].iter().filter(|t| !t.is_comment()).map(|t| t.class()).collect();
      out.fail(
        format!("reparse-fails/{}/ctx={}", front::syntax_error_class(msg), ctx.join(" ")),
        format!("formatter output does not parse: {} at {}:{}\ninput:\n{}\noutput:\n{}", msg, loc.start.0 + 1, loc.start.1 + 1, short(text, 1500), short(&t1, 1500)),
      );
      return out;
    }
    let canon1 = Canon::new(&p1.heap).module(&p1.module);
    if canon0 != canon1 {
      let (reassoc, rest) = sexp::diff_dumps_modulo_reassoc(&canon0, &canon1);
      if reassoc && rest.is_none() {
        let (_, detail) = sexp::diff_dumps(&canon0, &canon1);
        out.fail("ast-changed/reassociated-same-operator", format!("{detail}\ninput:\n{}\noutput:\n{}", short(text, 1500), short(&t1, 1500)));
      }
      if let Some((sig, detail)) = rest {
        out.fail(format!("ast-changed/{sig}"), format!("{detail}\ninput:\n{}\noutput:\n{}", short(text, 1500), short(&t1, 1500)));
      }
    }
    out
  }
}
