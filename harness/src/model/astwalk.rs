//! Flat location tree of a parsed module: every AST node that carries a location, with a
//! parent link, a kind, an optional name (for identifiers) and a flag telling whether it is
//! an element of a syntactic list (list elements must be ordered and disjoint).

use samlang_ast::Location;
use samlang_ast::source::*;
use samlang_heap::Heap;

#[derive(Clone, Debug)]
pub struct Node {
  pub kind: &'static str,
  pub loc: Location,
  pub parent: Option<usize>,
  /// identifier text when the node is a name
  pub name: Option<String>,
  /// index of the list this node is an element of (unique per list), if any
  pub list: Option<usize>,
  pub comments: Vec<CommentReference>,
}

pub struct Walk<'a> {
  pub heap: &'a Heap,
  pub nodes: Vec<Node>,
  next_list: usize,
}

impl<'a> Walk<'a> {
  pub fn new(heap: &'a Heap) -> Self {
    Walk { heap, nodes: vec![], next_list: 0 }
  }

  fn add(&mut self, kind: &'static str, loc: Location, parent: Option<usize>, list: Option<usize>) -> usize {
    self.nodes.push(Node { kind, loc, parent, name: None, list, comments: vec![] });
    self.nodes.len() - 1
  }

  fn new_list(&mut self) -> usize {
    self.next_list += 1;
    self.next_list
  }

  fn id(&mut self, kind: &'static str, id: &Id, parent: Option<usize>, list: Option<usize>) -> usize {
    let n = self.add(kind, id.loc, parent, list);
    self.nodes[n].name = Some(id.name.as_str(self.heap).to_string());
    self.nodes[n].comments.push(id.associated_comments);
    n
  }

  pub fn module(&mut self, m: &Module<()>) {
    let il = self.new_list();
    for i in &m.imports {
      let n = self.add("import", i.loc, None, Some(il));
      self.nodes[n].comments.push(i.associated_comments);
      let ml = self.new_list();
      for mem in &i.imported_members {
        self.id("import-member", mem, Some(n), Some(ml));
      }
      let im = self.add("import-module", i.imported_module_loc, Some(n), None);
      self.nodes[im].name = Some(i.imported_module.pretty_print(self.heap));
    }
    let tl = self.new_list();
    for t in &m.toplevels {
      self.toplevel(t, tl);
    }
  }

  fn toplevel(&mut self, t: &Toplevel<()>, list: usize) {
    match t {
      Toplevel::Interface(i) => {
        let n = self.add("interface", i.loc, None, Some(list));
        self.nodes[n].comments.push(i.associated_comments);
        self.id("class-name", &i.name, Some(n), None);
        self.tparams(&i.type_parameters, n);
        self.extends(&i.extends_or_implements_nodes, n);
        let mb = self.add("members", i.members.loc, Some(n), None);
        self.nodes[mb].comments.push(i.members.ending_associated_comments);
        let ml = self.new_list();
        for d in &i.members.members {
          self.decl(d, mb, ml);
        }
      }
      Toplevel::Class(c) => {
        let n = self.add("class", c.loc, None, Some(list));
        self.nodes[n].comments.push(c.associated_comments);
        self.id("class-name", &c.name, Some(n), None);
        self.tparams(&c.type_parameters, n);
        if let Some(td) = &c.type_definition {
          match td {
            TypeDefinition::Struct { loc, fields, start_associated_comments, ending_associated_comments } => {
              let t = self.add("typedef", *loc, Some(n), None);
              self.nodes[t].comments.push(*start_associated_comments);
              self.nodes[t].comments.push(*ending_associated_comments);
              let fl = self.new_list();
              for f in fields {
                // a field has no location of its own: name .. annotation
                let fnode = self.add("field", f.name.loc.union(&f.annotation.location()), Some(t), Some(fl));
                self.id("field-name", &f.name, Some(fnode), None);
                self.annot(&f.annotation, fnode, None);
              }
            }
            TypeDefinition::Enum { loc, variants, start_associated_comments, ending_associated_comments } => {
              let t = self.add("typedef", *loc, Some(n), None);
              self.nodes[t].comments.push(*start_associated_comments);
              self.nodes[t].comments.push(*ending_associated_comments);
              let vl = self.new_list();
              for v in variants {
                let vloc = match &v.associated_data_types {
                  Some(l) => v.name.loc.union(&l.location),
                  None => v.name.loc,
                };
                let vn = self.add("variant", vloc, Some(t), Some(vl));
                self.id("variant-name", &v.name, Some(vn), None);
                if let Some(l) = &v.associated_data_types {
                  let ln = self.add("variant-types", l.location, Some(vn), None);
                  self.nodes[ln].comments.push(l.start_associated_comments);
                  self.nodes[ln].comments.push(l.ending_associated_comments);
                  let al = self.new_list();
                  for a in &l.annotations {
                    self.annot(a, ln, Some(al));
                  }
                }
              }
            }
          }
        }
        self.extends(&c.extends_or_implements_nodes, n);
        let mb = self.add("members", c.members.loc, Some(n), None);
        self.nodes[mb].comments.push(c.members.ending_associated_comments);
        let ml = self.new_list();
        for d in &c.members.members {
          let dn = self.decl(&d.decl, mb, ml);
          self.expr(&d.body, dn, None);
        }
      }
    }
  }

  fn extends(&mut self, e: &Option<ExtendsOrImplementsNodes>, parent: usize) {
    if let Some(e) = e {
      let n = self.add("extends", e.location, Some(parent), None);
      self.nodes[n].comments.push(e.associated_comments);
      let l = self.new_list();
      for i in &e.nodes {
        self.id_annot(i, n, Some(l));
      }
    }
  }

  fn tparams(&mut self, t: &Option<annotation::TypeParameters>, parent: usize) {
    if let Some(t) = t {
      let n = self.add("tparams", t.location, Some(parent), None);
      self.nodes[n].comments.push(t.start_associated_comments);
      self.nodes[n].comments.push(t.ending_associated_comments);
      let l = self.new_list();
      for p in &t.parameters {
        let pn = self.add("tparam", p.loc, Some(n), Some(l));
        self.id("tparam-name", &p.name, Some(pn), None);
        if let Some(b) = &p.bound {
          self.id_annot(b, pn, None);
        }
      }
    }
  }

  fn decl(&mut self, d: &ClassMemberDeclaration, parent: usize, list: usize) -> usize {
    let n = self.add("member", d.loc, Some(parent), Some(list));
    self.nodes[n].comments.push(d.associated_comments);
    self.tparams(&d.type_parameters, n);
    self.id("member-name", &d.name, Some(n), None);
    let pn = self.add("params", d.parameters.location, Some(n), None);
    self.nodes[pn].comments.push(d.parameters.start_associated_comments);
    self.nodes[pn].comments.push(d.parameters.ending_associated_comments);
    let l = self.new_list();
    for p in d.parameters.parameters.iter() {
      let an = self.add("param", p.name.loc.union(&p.annotation.location()), Some(pn), Some(l));
      self.id("param-name", &p.name, Some(an), None);
      self.annot(&p.annotation, an, None);
    }
    self.annot(&d.return_type, n, None);
    n
  }

  fn id_annot(&mut self, i: &annotation::Id, parent: usize, list: Option<usize>) -> usize {
    let n = self.add("annot-id", i.location, Some(parent), list);
    self.id("annot-name", &i.id, Some(n), None);
    self.targs(&i.type_arguments, n);
    n
  }

  fn targs(&mut self, t: &Option<annotation::TypeArguments>, parent: usize) {
    if let Some(t) = t {
      let n = self.add("targs", t.location, Some(parent), None);
      self.nodes[n].comments.push(t.start_associated_comments);
      self.nodes[n].comments.push(t.ending_associated_comments);
      let l = self.new_list();
      for a in &t.arguments {
        self.annot(a, n, Some(l));
      }
    }
  }

  fn annot(&mut self, a: &annotation::T, parent: usize, list: Option<usize>) {
    match a {
      annotation::T::Primitive(loc, c, _) => {
        let n = self.add("annot-prim", *loc, Some(parent), list);
        self.nodes[n].comments.push(*c);
      }
      annotation::T::Id(i) => {
        self.id_annot(i, parent, list);
      }
      annotation::T::Generic(loc, id) => {
        let n = self.add("annot-generic", *loc, Some(parent), list);
        self.id("annot-name", id, Some(n), None);
      }
      annotation::T::Fn(f) => {
        let n = self.add("annot-fn", f.location, Some(parent), list);
        self.nodes[n].comments.push(f.associated_comments);
        let pn = self.add("annot-fn-params", f.parameters.location, Some(n), None);
        self.nodes[pn].comments.push(f.parameters.start_associated_comments);
        self.nodes[pn].comments.push(f.parameters.ending_associated_comments);
        let l = self.new_list();
        for p in &f.parameters.annotations {
          self.annot(p, pn, Some(l));
        }
        self.annot(&f.return_type, n, None);
      }
    }
  }

  fn pattern(&mut self, p: &pattern::MatchingPattern<()>, parent: usize, list: Option<usize>) {
    match p {
      pattern::MatchingPattern::Tuple(t) => {
        self.tuple_pattern(t, parent, list);
      }
      pattern::MatchingPattern::Object { location, elements, start_associated_comments, ending_associated_comments } => {
        let n = self.add("pat-object", *location, Some(parent), list);
        self.nodes[n].comments.push(*start_associated_comments);
        self.nodes[n].comments.push(*ending_associated_comments);
        let l = self.new_list();
        for e in elements {
          let en = self.add("pat-field", e.loc, Some(n), Some(l));
          self.id("pat-field-name", &e.field_name, Some(en), None);
          if !e.shorthand {
            self.pattern(&e.pattern, en, None);
          }
        }
      }
      pattern::MatchingPattern::Variant(v) => {
        let n = self.add("pat-variant", v.loc, Some(parent), list);
        self.id("pat-tag", &v.tag, Some(n), None);
        if let Some(t) = &v.data_variables {
          self.tuple_pattern(t, n, None);
        }
      }
      pattern::MatchingPattern::Id(id, _) => {
        self.id("pat-id", id, Some(parent), list);
      }
      pattern::MatchingPattern::Wildcard { location, associated_comments } => {
        let n = self.add("pat-wildcard", *location, Some(parent), list);
        self.nodes[n].comments.push(*associated_comments);
      }
      pattern::MatchingPattern::Or { location, patterns } => {
        let n = self.add("pat-or", *location, Some(parent), list);
        let l = self.new_list();
        for p in patterns {
          self.pattern(p, n, Some(l));
        }
      }
    }
  }

  fn tuple_pattern(&mut self, t: &pattern::TuplePattern<()>, parent: usize, list: Option<usize>) {
    let n = self.add("pat-tuple", t.location, Some(parent), list);
    self.nodes[n].comments.push(t.start_associated_comments);
    self.nodes[n].comments.push(t.ending_associated_comments);
    let l = self.new_list();
    for e in &t.elements {
      self.pattern(&e.pattern, n, Some(l));
    }
  }

  fn block(&mut self, b: &expr::Block<()>, parent: usize, list: Option<usize>) -> usize {
    let n = self.add("block", b.common.loc, Some(parent), list);
    self.nodes[n].comments.push(b.common.associated_comments);
    self.nodes[n].comments.push(b.ending_associated_comments);
    let l = self.new_list();
    for s in &b.statements {
      match s {
        expr::Statement::Declaration(d) => {
          let sn = self.add("let", d.loc, Some(n), Some(l));
          self.nodes[sn].comments.push(d.associated_comments);
          self.pattern(&d.pattern, sn, None);
          if let Some(a) = &d.annotation {
            self.annot(a, sn, None);
          }
          self.expr(&d.assigned_expression, sn, None);
        }
        expr::Statement::Expression(e) => {
          self.expr(e, n, Some(l));
        }
      }
    }
    if let Some(e) = &b.expression {
      self.expr(e, n, Some(l));
    }
    n
  }

  fn if_else(&mut self, i: &expr::IfElse<()>, parent: usize, list: Option<usize>) {
    let n = self.add("if", i.common.loc, Some(parent), list);
    self.nodes[n].comments.push(i.common.associated_comments);
    match i.condition.as_ref() {
      expr::IfElseCondition::Expression(c) => self.expr(c, n, None),
      expr::IfElseCondition::Guard(p, c) => {
        self.pattern(p, n, None);
        self.expr(c, n, None);
      }
    }
    self.block(&i.e1, n, None);
    match i.e2.as_ref() {
      expr::IfElseOrBlock::IfElse(e) => self.if_else(e, n, None),
      expr::IfElseOrBlock::Block(b) => {
        self.block(b, n, None);
      }
    }
  }

  pub fn expr(&mut self, e: &expr::E<()>, parent: usize, list: Option<usize>) {
    match e {
      expr::E::Literal(c, _) => {
        let n = self.add("literal", c.loc, Some(parent), list);
        self.nodes[n].comments.push(c.associated_comments);
      }
      expr::E::LocalId(c, id) => {
        let n = self.add("local", c.loc, Some(parent), list);
        self.nodes[n].comments.push(c.associated_comments);
        self.id("local-name", id, Some(n), None);
      }
      expr::E::ClassId(c, _, id) => {
        let n = self.add("classid", c.loc, Some(parent), list);
        self.nodes[n].comments.push(c.associated_comments);
        self.id("classid-name", id, Some(n), None);
      }
      expr::E::Tuple(c, l) => {
        let n = self.add("tuple", c.loc, Some(parent), list);
        self.nodes[n].comments.push(c.associated_comments);
        self.expr_list(l, n);
      }
      expr::E::FieldAccess(f) => {
        let n = self.add("field-access", f.common.loc, Some(parent), list);
        self.nodes[n].comments.push(f.common.associated_comments);
        self.expr(&f.object, n, None);
        self.id("field-access-name", &f.field_name, Some(n), None);
        self.targs(&f.explicit_type_arguments, n);
      }
      expr::E::MethodAccess(f) => {
        let n = self.add("method-access", f.common.loc, Some(parent), list);
        self.nodes[n].comments.push(f.common.associated_comments);
        self.expr(&f.object, n, None);
        self.id("method-access-name", &f.method_name, Some(n), None);
        self.targs(&f.explicit_type_arguments, n);
      }
      expr::E::Unary(u) => {
        let n = self.add("unary", u.common.loc, Some(parent), list);
        self.nodes[n].comments.push(u.common.associated_comments);
        self.expr(&u.argument, n, None);
      }
      expr::E::Call(c) => {
        let n = self.add("call", c.common.loc, Some(parent), list);
        self.nodes[n].comments.push(c.common.associated_comments);
        let l = self.new_list();
        self.expr(&c.callee, n, Some(l));
        let an = self.add("args", c.arguments.loc, Some(n), Some(l));
        self.nodes[an].comments.push(c.arguments.start_associated_comments);
        self.nodes[an].comments.push(c.arguments.ending_associated_comments);
        let al = self.new_list();
        for a in &c.arguments.expressions {
          self.expr(a, an, Some(al));
        }
      }
      expr::E::Binary(b) => {
        let n = self.add("binary", b.common.loc, Some(parent), list);
        self.nodes[n].comments.push(b.common.associated_comments);
        self.nodes[n].comments.push(b.operator_preceding_comments);
        let l = self.new_list();
        self.expr(&b.e1, n, Some(l));
        self.expr(&b.e2, n, Some(l));
      }
      expr::E::IfElse(i) => self.if_else(i, parent, list),
      expr::E::Match(m) => {
        let n = self.add("match", m.common.loc, Some(parent), list);
        self.nodes[n].comments.push(m.common.associated_comments);
        self.expr(&m.matched, n, None);
        let l = self.new_list();
        for c in &m.cases {
          let cn = self.add("arm", c.loc, Some(n), Some(l));
          self.nodes[cn].comments.push(c.ending_associated_comments);
          let cl = self.new_list();
          self.pattern(&c.pattern, cn, Some(cl));
          self.expr(&c.body, cn, Some(cl));
        }
      }
      expr::E::Lambda(lm) => {
        let n = self.add("lambda", lm.common.loc, Some(parent), list);
        self.nodes[n].comments.push(lm.common.associated_comments);
        let l = self.new_list();
        let pn = self.add("lambda-params", lm.parameters.loc, Some(n), Some(l));
        self.nodes[pn].comments.push(lm.parameters.ending_associated_comments);
        let pl = self.new_list();
        for p in &lm.parameters.parameters {
          let ploc = match &p.annotation {
            Some(a) => p.name.loc.union(&a.location()),
            None => p.name.loc,
          };
          let an = self.add("lambda-param", ploc, Some(pn), Some(pl));
          self.id("lambda-param-name", &p.name, Some(an), None);
          if let Some(a) = &p.annotation {
            self.annot(a, an, None);
          }
        }
        self.expr(&lm.body, n, Some(l));
      }
      expr::E::Block(b) => {
        self.block(b, parent, list);
      }
    }
  }

  fn expr_list(&mut self, l: &expr::ParenthesizedExpressionList<()>, parent: usize) {
    let n = self.add("expr-list", l.loc, Some(parent), None);
    self.nodes[n].comments.push(l.start_associated_comments);
    self.nodes[n].comments.push(l.ending_associated_comments);
    let el = self.new_list();
    for e in &l.expressions {
      self.expr(e, n, Some(el));
    }
  }
}

pub fn walk_module(heap: &Heap, m: &Module<()>) -> Vec<Node> {
  let mut w = Walk::new(heap);
  w.module(m);
  w.nodes
}
