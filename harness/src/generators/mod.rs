pub mod faults;
pub mod ir;
pub mod progen;
pub mod rewrites;
pub mod soup;
pub mod syngen;
pub mod loopgen;
