//! G5 – surface-syntax generator: arbitrary *syntactically valid* modules (typed or not),
//! written production by production from samlang-parser's grammar, with a trivia slot
//! (whitespace variants, comments of all three kinds) before every token and at EOF.

use crate::engine::Tape;

#[derive(Clone, Copy, Debug, PartialEq, Eq)]
pub enum Layout {
  /// one space between tokens, newline after `;` and `{`
  Plain,
  /// random whitespace: tabs, CRLF, blank lines, tight punctuation
  Wild,
}

#[derive(Clone, Debug)]
pub struct SynCfg {
  pub layout: Layout,
  /// probability (per 1000 trivia slots) of a comment
  pub comment_permille: u32,
  pub budget: i32,
  pub non_ascii: bool,
  pub long_lines: bool,
  /// every identifier is longer than the heap's inline capacity (15 bytes), i.e. garbage-collectable
  pub long_idents: bool,
}

pub struct CommentPlaced {
  pub kind: &'static str,
  pub marker: String,
}

pub struct Syn<'t> {
  t: &'t mut Tape,
  pub out: String,
  cfg: SynCfg,
  budget: i32,
  prev: String,
  last_was_dot_id: bool,
  at_line_start: bool,
  pub comments: Vec<CommentPlaced>,
  comment_counter: u32,
  depth: u32,
  shared_comment_texts: bool,
}

const LOWER: &[&str] = &["a", "b", "c", "x", "y", "foo", "bar", "acc", "i", "n", "value", "aVeryLongIdentifierNumberOne", "anotherQuiteLongLocalName2", "f", "g"];
const UPPER: &[&str] = &["A", "B", "Foo", "Bar", "Option", "Some", "None", "List", "Pair", "ARatherLongClassNameForTests", "T", "Str", "Process", "Vec", "Main"];
const TPARAM: &[&str] = &["T", "U", "V"];
const LONG_LOWER: &[&str] = &[
  "aVeryLongIdentifierNumberOne", "anotherQuiteLongLocalName2", "yetAnotherLongLowerName3", "someParameterWithLongName4", "theAccumulatorVariableName5", "fieldWithAVeryLongName6", "methodWithAVeryLongName7", "functionWithAVeryLongName8",
  "anUnusedParameterLongName9", "longLambdaParameterName10", "patternBoundVariableName11", "valueOfTheStructField12",
];
const LONG_UPPER: &[&str] = &[
  "ARatherLongClassNameForTests", "AnotherRatherLongClassName2", "SomeInterfaceWithALongName3", "VariantWithAVeryLongName4", "SecondVariantWithLongName5", "ImportedClassWithLongName6", "YetAnotherLongUpperName7", "TypeParameterLongName8",
];
const INTS: &[&str] = &["0", "1", "2", "3", "7", "42", "100", "65536", "1073741823", "1073741824", "2147483647", "-2147483648"];
const STRS: &[&str] = &[
  "\"\"",
  "\"a\"",
  "\"hello world\"",
  "\"a\\nb\"",
  "\"q\\\"x\"",
  "\"back\\\\slash\"",
  "\"// not a comment\"",
  "\"/* nor this */\"",
  "\"tab\\there\"",
  "\"a string literal that is fairly long so that the line has to be broken somewhere else\"",
];
const STRS_NON_ASCII: &[&str] = &["\"é\"", "\"日本語\"", "\"naïve café\"", "\"→ ✓\""];
const COMMENT_WORDS: &[&str] = &["note", "todo", "fix this", "x", "see below", "a * b", "a // b", "two  spaces", "*", "**star", "- dash", "1)"];
const LONG_COMMENT: &str = "this is a long comment with many words so that the pretty printer has to wrap it over several lines when the available width is small and it keeps going for a while longer than that";

impl<'t> Syn<'t> {
  pub fn new(t: &'t mut Tape, cfg: SynCfg) -> Syn<'t> {
    let budget = cfg.budget;
    Syn { t, out: String::new(), cfg, budget, prev: String::new(), last_was_dot_id: false, at_line_start: true, comments: vec![], comment_counter: 0, depth: 0, shared_comment_texts: false }
  }

  // ------------------------------------------------------------------ trivia and tokens

  fn is_tight_ok(s: &str) -> bool {
    matches!(s, "(" | ")" | "," | ";" | "{" | "}" | ".")
  }

  fn ws(&mut self, next: &str) {
    match self.cfg.layout {
      Layout::Plain => {
        if self.prev.is_empty() {
          return;
        }
        if self.prev == ";" || self.prev == "{" || (self.prev == "}" && next != "else" && next != "," && next != ")" && next != ";") {
          self.out.push('\n');
          self.at_line_start = true;
        } else {
          self.out.push(' ');
        }
      }
      Layout::Wild => {
        let tight = !self.prev.is_empty() && (Self::is_tight_ok(&self.prev) || Self::is_tight_ok(next));
        let n = if tight { 11 } else { 10 };
        let c = self.t.choose(n);
        let s = match c {
          0 => " ",
          1 => "\n",
          2 => "  ",
          3 => "\t",
          4 => "\r\n",
          5 => "\n\n",
          6 => "\n    ",
          7 => " \t ",
          8 => "\r",
          9 => " \r \r\n\t",
          _ => "",
        };
        if self.prev.is_empty() && c == 0 {
          return;
        }
        if self.cfg.long_lines && s.contains('\n') && self.t.bool(9, 10) {
          self.out.push(' ');
          return;
        }
        self.out.push_str(s);
        if s.contains('\n') {
          self.at_line_start = true;
        }
      }
    }
  }

  fn comment_text(&mut self) -> String {
    self.comment_counter += 1;
    if self.shared_comment_texts && self.t.bool(1, 2) {
      // identical comment groups in several places (no unique marker)
      return ["same", "default", "same same"][self.t.choose(3)].to_string();
    }
    let marker = format!("c{}", self.comment_counter);
    let body = match self.t.choose(8) {
      0 => String::new(),
      1..=4 => COMMENT_WORDS[self.t.choose(COMMENT_WORDS.len())].to_string(),
      5 => LONG_COMMENT.to_string(),
      6 => {
        if self.cfg.non_ascii {
          "ünïcödé 日本".to_string()
        } else {
          "plain".to_string()
        }
      }
      _ => "word".to_string(),
    };
    if body.is_empty() { marker } else { format!("{marker} {body}") }
  }

  fn maybe_comments(&mut self, next: &str) {
    if self.cfg.comment_permille == 0 {
      return;
    }
    let mut n = 0;
    while n < 2 && self.t.bool(self.cfg.comment_permille, 1000) {
      n += 1;
      let text = self.comment_text();
      let marker = text.split(' ').next().unwrap().to_string();
      if !self.out.is_empty() && !self.out.ends_with(|c: char| c.is_ascii_whitespace()) {
        self.out.push(' ');
      }
      match self.t.choose(8) {
        0 | 1 => {
          self.out.push_str(&format!("// {text}\n"));
          self.at_line_start = true;
          self.comments.push(CommentPlaced { kind: "//", marker });
        }
        2 => {
          self.out.push_str(&format!("/* {text} */"));
          self.comments.push(CommentPlaced { kind: "/*", marker });
        }
        3 => {
          self.out.push_str(&format!("/** {text} */"));
          self.comments.push(CommentPlaced { kind: "/**", marker });
        }
        4 => {
          // multi-line block comment with leading stars
          let words: Vec<&str> = text.split(' ').collect();
          let mid = words.len() / 2;
          self.out.push_str(&format!("/*\n * {}\n * {}\n */", words[..mid].join(" "), words[mid..].join(" ")));
          self.comments.push(CommentPlaced { kind: "/*", marker });
        }
        5 => {
          self.out.push_str(&format!("/**\n   * {text}\n   */"));
          self.comments.push(CommentPlaced { kind: "/**", marker });
        }
        6 => {
          // closing delimiter at column 0
          self.out.push_str(&format!("/*\n{text}\n*/"));
          self.comments.push(CommentPlaced { kind: "/*", marker });
        }
        _ => {
          self.out.push_str(&format!("/** {text}\n*/"));
          self.comments.push(CommentPlaced { kind: "/**", marker });
        }
      }
      let _ = next;
    }
  }

  pub fn tok(&mut self, s: &str) {
    self.maybe_comments(s);
    if !self.out.is_empty() && !self.out.ends_with('\n') || self.cfg.layout == Layout::Wild {
      self.ws(s);
    }
    // never let two tokens glue together
    if let (Some(p), Some(n)) = (self.out.chars().last(), s.chars().next()) {
      let glue = (p.is_ascii_alphanumeric() && n.is_ascii_alphanumeric())
        || (!p.is_ascii_whitespace()
          && !p.is_ascii_alphanumeric()
          && !n.is_ascii_alphanumeric()
          && !Self::is_tight_ok(&self.prev)
          && !Self::is_tight_ok(s)
          && p != '"'
          && n != '"')
        || (p == '/' && (n == '/' || n == '*'))
        || (p == '-' && n.is_ascii_digit());
      if glue {
        self.out.push(' ');
      }
    }
    self.out.push_str(s);
    self.prev = s.to_string();
    self.last_was_dot_id = false;
    self.at_line_start = false;
  }

  fn lower(&mut self) -> &'static str {
    if self.cfg.long_idents {
      return LONG_LOWER[self.t.choose(LONG_LOWER.len())];
    }
    LOWER[self.t.choose(LOWER.len())]
  }
  fn upper(&mut self) -> &'static str {
    if self.cfg.long_idents {
      return LONG_UPPER[self.t.choose(LONG_UPPER.len())];
    }
    UPPER[self.t.choose(UPPER.len())]
  }

  fn spend(&mut self) -> bool {
    self.budget -= 1;
    self.budget > 0 && self.depth < 40
  }

  fn list<F: FnMut(&mut Self)>(&mut self, min: usize, max: usize, mut f: F, trailing_comma_ok: bool) {
    let n = min + self.t.small_len(max - min);
    for i in 0..n {
      if i > 0 {
        self.tok(",");
      }
      f(self);
    }
    if trailing_comma_ok && n > 0 && self.t.bool(1, 12) {
      self.tok(",");
    }
  }

  // ------------------------------------------------------------------ module level

  pub fn module(&mut self) {
    self.shared_comment_texts = self.cfg.comment_permille > 0 && self.t.bool(1, 5);
    let nimports = self.t.small_len(3);
    for _ in 0..nimports {
      self.import();
    }
    let n = 1 + self.t.small_len(2);
    for _ in 0..n {
      self.toplevel();
    }
    // trailing trivia
    self.maybe_comments("EOF");
    if self.cfg.layout == Layout::Wild {
      self.ws("EOF");
    } else {
      self.out.push('\n');
    }
  }

  fn import(&mut self) {
    self.tok("import");
    self.tok("{");
    self.list(
      1,
      3,
      |s| {
        let u = s.upper();
        s.tok(u)
      },
      true,
    );
    self.tok("}");
    self.tok("from");
    let n = 1 + self.t.choose(3);
    for i in 0..n {
      if i > 0 {
        self.tok(".");
      }
      let id = if self.t.bool(1, 5) { self.upper() } else { ["std", "tuples", "option", "list", "mod", "lib", "x"][self.t.choose(7)] };
      self.tok(id);
    }
    if self.t.bool(1, 2) {
      self.tok(";");
    }
  }

  fn toplevel(&mut self) {
    if self.t.bool(1, 6) {
      self.tok("private");
    }
    let is_interface = self.t.bool(1, 5);
    self.tok(if is_interface { "interface" } else { "class" });
    let u = self.upper();
    self.tok(u);
    if self.t.bool(1, 4) {
      self.tparams();
    }
    if !is_interface && self.t.bool(2, 3) {
      self.typedef();
    }
    if self.t.bool(1, 5) {
      self.tok(":");
      self.list(1, 2, |s| s.id_annot(), false);
    }
    self.tok("{");
    let n = self.t.small_len(3);
    for _ in 0..n {
      self.member(is_interface);
    }
    self.tok("}");
  }

  fn tparams(&mut self) {
    self.tok("<");
    self.list(
      1,
      3,
      |s| {
        let p = if s.cfg.long_idents { LONG_UPPER[5 + s.t.choose(3)] } else { TPARAM[s.t.choose(TPARAM.len())] };
        s.tok(p);
        if s.t.bool(1, 4) {
          s.tok(":");
          s.id_annot();
        }
      },
      false,
    );
    self.tok(">");
  }

  fn typedef(&mut self) {
    self.tok("(");
    if self.t.bool(1, 2) {
      self.list(
        1,
        4,
        |s| {
          if s.t.bool(1, 5) {
            s.tok("private");
          }
          s.tok("val");
          let l = s.lower();
          s.tok(l);
          s.tok(":");
          s.annot();
        },
        true,
      );
    } else {
      self.list(
        1,
        4,
        |s| {
          let u = s.upper();
          s.tok(u);
          if s.t.bool(1, 2) {
            s.tok("(");
            s.list(1, 3, |s| s.annot(), true);
            s.tok(")");
          }
        },
        true,
      );
    }
    self.tok(")");
  }

  fn member(&mut self, is_interface: bool) {
    if !is_interface && self.t.bool(1, 6) {
      self.tok("private");
    }
    let kw = if self.t.bool(1, 2) { "function" } else { "method" };
    self.tok(kw);
    if self.t.bool(1, 5) {
      self.tparams();
    }
    let l = self.lower();
    self.tok(l);
    self.tok("(");
    self.list(
      0,
      3,
      |s| {
        let l = s.lower();
        s.tok(l);
        s.tok(":");
        s.annot();
      },
      true,
    );
    self.tok(")");
    self.tok(":");
    self.annot();
    if !is_interface {
      self.tok("=");
      self.expr(0);
    }
  }

  fn id_annot(&mut self) {
    let u = self.upper();
    self.tok(u);
    if self.t.bool(1, 4) && self.spend() {
      self.tok("<");
      self.list(1, 2, |s| s.annot(), false);
      self.tok(">");
    }
  }

  fn annot(&mut self) {
    self.depth += 1;
    let c = if self.spend() { self.t.weighted(&[4, 3, 2, 5, 2]) } else { self.t.choose(3) };
    match c {
      0 => self.tok("int"),
      1 => self.tok("bool"),
      2 => self.tok("unit"),
      3 => self.id_annot(),
      _ => {
        self.tok("(");
        self.list(0, 2, |s| s.annot(), false);
        self.tok(")");
        self.tok("->");
        self.annot();
      }
    }
    self.depth -= 1;
  }

  // ------------------------------------------------------------------ patterns

  fn pattern(&mut self) {
    self.single_pattern();
    if self.t.bool(1, 8) {
      let n = 1 + self.t.choose(2);
      for _ in 0..n {
        self.tok("|");
        self.single_pattern();
      }
    }
  }

  fn single_pattern(&mut self) {
    self.depth += 1;
    let c = if self.spend() { self.t.weighted(&[5, 2, 3, 3, 3]) } else { self.t.choose(2) };
    match c {
      0 => {
        let l = self.lower();
        self.tok(l)
      }
      1 => self.tok("_"),
      2 => {
        let u = self.upper();
        self.tok(u);
        if self.t.bool(2, 3) {
          self.tok("(");
          self.list(1, 3, |s| s.pattern(), true);
          self.tok(")");
        }
      }
      3 => {
        self.tok("(");
        self.list(1, 3, |s| s.pattern(), true);
        self.tok(")");
      }
      _ => {
        self.tok("{");
        self.list(
          1,
          3,
          |s| {
            let l = s.lower();
            s.tok(l);
            if s.t.bool(1, 3) {
              s.tok("as");
              s.pattern();
            }
          },
          true,
        );
        self.tok("}");
      }
    }
    self.depth -= 1;
  }

  // ------------------------------------------------------------------ expressions
  // level: 0 match, 1 if, 2 ||, 3 &&, 4 comparison, 5 + -, 6 * / %, 7 ::, 8 unary, 9 postfix, 10 base

  pub fn expr(&mut self, level: u32) {
    self.depth += 1;
    if !self.spend() {
      self.leaf();
      self.depth -= 1;
      return;
    }
    // choose the production level >= `level`
    let weights: [u32; 11] = [3, 5, 3, 3, 5, 6, 5, 3, 4, 10, 14];
    let mut w = weights;
    for (i, x) in w.iter_mut().enumerate() {
      if (i as u32) < level {
        *x = 0;
      }
    }
    // keep choice 0 simple: rotate so that base comes first
    let order: Vec<usize> = (0..11).rev().collect();
    let ws: Vec<u32> = order.iter().map(|i| w[*i]).collect();
    let l = order[self.t.weighted(&ws)] as u32;
    match l {
      0 => self.match_expr(),
      1 => self.if_expr(),
      2..=7 => {
        self.expr(l);
        let op = match l {
          2 => "||",
          3 => "&&",
          4 => ["==", "<", "<=", ">", ">=", "!="][self.t.choose(6)],
          5 => ["+", "-"][self.t.choose(2)],
          6 => ["*", "/", "%"][self.t.choose(3)],
          _ => "::",
        };
        let op = if op == "<" && self.last_was_dot_id { "<=" } else { op };
        self.tok(op);
        self.expr(l + 1);
      }
      8 => {
        let op = ["!", "-"][self.t.choose(2)];
        self.tok(op);
        self.expr(9);
      }
      9 => {
        self.expr(10);
        let n = 1 + self.t.small_len(2);
        for _ in 0..n {
          match self.t.choose(3) {
            0 => {
              self.tok(".");
              let id = if self.t.bool(1, 8) { self.upper() } else { self.lower() };
              self.tok(id);
              self.last_was_dot_id = true;
            }
            1 => {
              self.tok(".");
              let id = self.lower();
              self.tok(id);
              self.tok("<");
              self.list(1, 2, |s| s.annot(), false);
              self.tok(">");
            }
            _ => {
              self.tok("(");
              self.list(0, 3, |s| s.expr(0), true);
              self.tok(")");
            }
          }
        }
      }
      _ => self.base(),
    }
    self.depth -= 1;
  }

  fn leaf(&mut self) {
    match self.t.choose(6) {
      0 => {
        let l = self.lower();
        self.tok(l)
      }
      1 => {
        let i = INTS[self.t.choose(INTS.len())];
        self.tok(i)
      }
      2 => {
        let b = ["true", "false"][self.t.choose(2)];
        self.tok(b)
      }
      3 => self.tok("this"),
      4 => {
        let u = self.upper();
        self.tok(u)
      }
      _ => self.string(),
    }
  }

  fn string(&mut self) {
    if self.t.bool(1, 3) {
      // compositional literal: every mix of plain text, escaped quotes, escaped backslashes, escapes
      const ATOMS: &[&str] = &["a", "b c", "\\\"", "\\\\", "\\n", "\\t", "//", "/*", "*/", "'", " ", "0", "é"];
      let n = self.t.small_len(6);
      let mut lit = String::from("\"");
      for _ in 0..n {
        let a = ATOMS[self.t.choose(if self.cfg.non_ascii { ATOMS.len() } else { ATOMS.len() - 1 })];
        lit.push_str(a);
      }
      lit.push('"');
      self.tok(&lit);
      return;
    }
    let s = if self.cfg.non_ascii && self.t.bool(1, 3) { STRS_NON_ASCII[self.t.choose(STRS_NON_ASCII.len())] } else { STRS[self.t.choose(STRS.len())] };
    self.tok(s);
  }

  fn base(&mut self) {
    match self.t.weighted(&[10, 6, 3, 4, 3]) {
      0 => self.leaf(),
      1 => {
        // explicit parentheses around any expression
        self.tok("(");
        self.expr(0);
        self.tok(")");
      }
      2 => {
        self.tok("(");
        self.list(2, 4, |s| s.expr(0), true);
        self.tok(")");
      }
      3 => self.lambda(),
      _ => self.block(),
    }
  }

  fn lambda(&mut self) {
    self.tok("(");
    let annotated = self.t.choose(3);
    self.list(
      0,
      3,
      |s| {
        let l = s.lower();
        s.tok(l);
        if annotated == 1 || (annotated == 2 && s.t.bool(1, 2)) {
          s.tok(":");
          s.annot();
        }
      },
      false,
    );
    self.tok(")");
    self.tok("->");
    self.expr(0);
  }

  fn block(&mut self) {
    self.tok("{");
    let n = self.t.small_len(3);
    for _ in 0..n {
      match self.t.choose(4) {
        0 | 1 => {
          self.tok("let");
          self.pattern();
          if self.t.bool(1, 3) {
            self.tok(":");
            self.annot();
          }
          self.tok("=");
          self.expr(0);
          self.tok(";");
        }
        2 => {
          self.expr(0);
          self.tok(";");
        }
        _ => self.tok(";"),
      }
    }
    if self.t.bool(3, 4) {
      self.expr(0);
    }
    self.tok("}");
  }

  fn if_expr(&mut self) {
    self.tok("if");
    if self.t.bool(1, 4) {
      self.tok("let");
      self.pattern();
      self.tok("=");
      self.expr(0);
    } else {
      self.expr(0);
    }
    self.block();
    self.tok("else");
    if self.t.bool(1, 4) && self.budget > 0 {
      self.if_expr();
    } else {
      self.block();
    }
  }

  fn match_expr(&mut self) {
    self.tok("match");
    self.expr(0);
    self.tok("{");
    let n = 1 + self.t.small_len(3);
    for i in 0..n {
      self.pattern();
      self.tok("->");
      self.expr(0);
      if i + 1 < n || self.t.bool(1, 2) {
        self.tok(",");
      }
    }
    self.tok("}");
  }
}

pub fn gen_module(t: &mut Tape, cfg: SynCfg) -> String {
  let mut s = Syn::new(t, cfg);
  s.module();
  s.out
}
