#!/bin/bash
# Developer tool: apply every seeded patch in turn, run the quick check of its property, report detection.
# usage: tools/allseeds.sh [seed-id ...]   (default: all directories under seeded/)
cd /verif
SEEDS="$@"
[ -z "$SEEDS" ] && SEEDS=$(ls seeded)
for s in $SEEDS; do
  id=${s%%-*}
  # a seed whose violation is reported by another property's check names it in meta.json
  by=$(python3 -c "import json,sys; print(json.load(open('/verif/seeded/$s/meta.json')).get('detected_by',''))" 2>/dev/null)
  [ -n "$by" ] && id=$by
  cd /repo || exit 2
  if ! git diff --quiet; then echo "repo dirty"; exit 2; fi
  if ! git apply "/verif/seeded/$s/patch.diff" 2>/dev/null; then echo "$s: PATCH DOES NOT APPLY"; continue; fi
  out=$(cd /verif && timeout 1800 ./check $id 2>&1); rc=$?
  git -C /repo checkout -- .
  sigs=$(echo "$out" | grep "signature:" | sed 's/ *signature: //' | sort -u | head -3 | tr '\n' ';')
  echo "$s rc=$rc $(echo "$out" | grep -E "^$id " | tail -1 | sed 's/.*evaluations=/evaluations=/') $sigs"
done
cd /verif && ./check C17 >/dev/null 2>&1   # rebuild on the clean tree
