//! C01 (WASM vs reference semantics), C03 (accepted programs never go wrong) and
//! C04 (TypeScript vs WebAssembly) over G1 programs and the repository's own test programs.

use super::run_common::*;
use crate::engine::findings::excluded;
use crate::engine::{Outcome, Params, Prop, Tape, Tier, fnv, msg_class};
use crate::generators::progen::{GenCfg, gen_program};
use crate::model::interp::End;
use serde_json::{Value, json};

pub fn cfg_for(own_id: &str, tier: Tier) -> GenCfg {
  // the three behavioural properties share one compiler, hence one set of excluded shapes
  let excluded = |_: &str, flag: &str| excluded("C01", flag) || excluded("C03", flag) || excluded("C04", flag);
  let id = "";
  let mut c = GenCfg::default();
  if tier == Tier::Thorough {
    c.max_classes = 7;
    c.node_budget = 400;
    c.max_depth = 5;
  }
  c.unboxable_recursive_enum = !excluded(id, "unboxable_recursive_enum");
  c.param_swap_tail_calls = !excluded(id, "param_swap_tail_calls");
  // C02's recorded comparison-merge finding needs sums that wrap around: no extreme literals there either
  c.big_ints = !crate::engine::findings::excluded(own_id, "big_ints") && !crate::engine::findings::excluded(own_id, "compare_after_add");
  c.single_variant_pointer_enum = !excluded(id, "single_variant_pointer_enum");
  c.rec_call_in_short_circuit = !excluded(id, "rec_call_in_short_circuit");
  c.tuple_typed_field = !excluded(id, "tuple_typed_field");
  c.lambda_this_in_generic_class = !excluded(id, "lambda_this_in_generic_class");
  c.lambda_this_in_enum_class = !excluded(id, "lambda_this_in_enum_class");
  c.fn_typed_field_in_generic_class = !excluded(id, "fn_typed_field_in_generic_class");
  c.fuel_in_base_case = !excluded(id, "fuel_in_base_case");
  c.effects_in_rec_call_args = !excluded(id, "effects_in_rec_call_args");
  c.derived_induction_args = !excluded(id, "derived_induction_args");
  c.possibly_zero_divisor = !excluded(id, "possibly_zero_divisor");
  c.same_operand_division = !crate::engine::findings::excluded(own_id, "same_operand_division");
  // backend-difference findings only restrict the differential check that owns them
  c.neg_division = !crate::engine::findings::excluded(own_id, "neg_division");
  c.single_field_struct_payload = !crate::engine::findings::excluded(own_id, "single_field_struct_payload");
  // these are ON only when no recorded finding asks for exclusion *and* the property wants them
  c.string_escapes = false;
  c.non_ascii_strings = false;
  c.wide_vec_ints = !excluded(id, "wide_vec_ints");
  c
}

pub fn gen_g1(id: &str, t: &mut Tape, tier: Tier, tweak: impl FnOnce(&mut GenCfg)) -> Value {
  let mut cfg = cfg_for(id, tier);
  tweak(&mut cfg);
  let (ir, feats) = gen_program(t, cfg);
  art_of(&ir.render(), &ir.entry, &feats)
}

fn features(art: &Value) -> Vec<String> {
  art["features"].as_array().cloned().unwrap_or_default().iter().map(|x| x.as_str().unwrap_or("").to_string()).collect()
}

fn g1_nontrivial(feats: &[String], printed: usize) -> bool {
  let has = |k: &str| feats.iter().any(|f| f.starts_with(k));
  (has("struct-class") || has("enum:")) && has("call") && (has("match") || has("if-let") || has("closure") || has("lambda") || has("generic-member") || has("interface")) && printed >= 1
}

fn repo_cases() -> Vec<Value> {
  // every tests/*.sam module that has a `class Main` with `function main` is an entry point of the
  // whole tests.* program
  let mut mods = crate::model::front::repo_test_modules();
  for m in mods.iter_mut() {
    // tests.Benchmark recurses 20 000 000 levels (a loop after tail-call rewriting); the reference
    // interpreter has no tail calls, so the comparison uses a smaller n with the same property
    m.1 = m.1.replace("let bigNum = 20000000;", "let bigNum = 6014;");
  }
  let mut out = vec![];
  for (name, text) in &mods {
    if text.contains("class Main") && text.contains("function main(") {
      let mut art = art_of(&mods, name, &["repository-tests"]);
      art["origin"] = json!(name.join("."));
      out.push(art);
    }
  }
  out
}

fn sample(art: &Value, reference: &str) -> Value {
  let (mods, entry) = mods_of(art);
  let text = describe(&mods);
  json!({"entry": entry.join("."), "reference_end": reference, "program": super::fmt_common::short(&text, 900), "features": art["features"]})
}

// ======================================================================= C01

pub struct C01;

impl Prop for C01 {
  fn id(&self) -> &'static str {
    "C01"
  }
  fn rule(&self) -> String {
    "G1 well-typed multi-module programs (struct / enum / utility classes incl. generic, recursive, single-pointer-payload and 0-ary-only enum shapes, an interface with bounded generics and dynamic dispatch, closures capturing locals and this, function references, tuples, Option, Vec, nested / or / wildcard / struct / tuple patterns, if-let, tail and non-tail fuel recursion with parameter permutations, opaque run-time ints) plus every entry point of the repository's tests/*.sam; oracle: the harness's reference interpreter (written from the spec, calibrated against tests/snapshot.txt) vs. the emitted WebAssembly run through the emitted loader in node 22: same printed lines and same end (return / panic message / Vec-bounds panic); runs the reference marks overflow / div-by-zero / toInt-undefined are excluded and counted; non-trivial = >=1 data class, >=1 call, >=1 of {match, if-let, closure, generic member, interface} and >=1 printed line; distinct = hash of the program text".into()
  }
  fn assumptions(&self) -> Vec<String> {
    vec![
      "the reference interpreter is the harness's reading of spec.md sections 4-8 and 10; it reproduces tests/snapshot.txt (205 lines) exactly".into(),
      "call receivers/callees are kept effect-free by the generator (the spec says arguments are evaluated first, the implementation evaluates the receiver first; recorded as a discrepancy, not searched)".into(),
      "== / != are generated on int, bool and Str (contents); on references the spec contradicts itself, so they are not generated for the reference comparison (C04 alone prints comparisons of Vec values, judged between the two backends only)".into(),
      "struct patterns mention every field (the checker rejects omitted fields although spec 8.5 allows them)".into(),
      "node 22 (V8 12.4) is the WebAssembly engine; recorded findings are excluded from generation by feature flags and re-observed by probes".into(),
    ]
  }
  fn params(&self, tier: Tier) -> Params {
    match tier {
      Tier::Quick => Params { cases: 12_000, tape_len: 1500, workers: 14, stack_mb: 64, worker_timeout_s: 1500, shrink_iters: 600 },
      Tier::Thorough => Params { cases: 80_000, tape_len: 4000, workers: 16, stack_mb: 64, worker_timeout_s: 5 * 3600, shrink_iters: 600 },
    }
  }
  fn generate(&self, t: &mut Tape, tier: Tier) -> Value {
    gen_g1("C01", t, tier, |_| {})
  }
  fn fixed_cases(&self, _tier: Tier) -> Vec<Value> {
    repo_cases()
  }
  fn check(&self, art: &Value) -> Outcome {
    let mut out = Outcome::default();
    let (mods, entry) = mods_of(art);
    out.key = fnv(describe(&mods).as_bytes());
    let feats = features(art);
    for f in &feats {
      out.label(format!("feature:{f}"));
    }
    let is_repo = feats.iter().any(|f| f == "repository-tests");
    let Some(reference) = reference_run(&mods, &entry, if is_repo { 400_000_000 } else { 300_000 }) else {
      return Outcome::discarded("reference-could-not-load-program");
    };
    out.sample = Some(sample(art, &end_str(&reference.end)));
    match &reference.end {
      End::Excluded(r) => return Outcome::discarded(format!("excluded-by-spec:{r}")),
      End::Budget => return Outcome::discarded("reference-budget"),
      End::Stuck(m) => return Outcome::discarded(format!("reference-stuck:{}", msg_class(m))),
      _ => {}
    }
    for (k, v) in &reference.events {
      if *v > 0 {
        out.label(format!("ran:{k}"));
      }
    }
    out.label(format!("end:{}", match &reference.end { End::Return => "return", End::Panic(_) => "panic", End::VecBounds => "vec-bounds", _ => "other" }));
    out.nontrivial = if is_repo { !reference.lines.is_empty() } else { g1_nontrivial(&feats, reference.lines.len()) };
    match run_pipeline(&mods, &entry, false) {
      Pipeline::Rejected(m) => Outcome::discarded(format!("rejected-by-checker:{}", msg_class(m.lines().nth(2).unwrap_or("")))),
      Pipeline::CompilePanic(_) => Outcome::discarded("compiler-panic(C03)"),
      Pipeline::NoNode => Outcome::discarded("INFRA:node-unavailable"),
      Pipeline::Executed(x) => {
        let w = &x.wasm;
        if w.end == "infra" {
          return Outcome::discarded("INFRA:node-worker-died");
        }
        if matches!(w.end.as_str(), "compile-error" | "link-error") {
          return Outcome::discarded("module-not-instantiable(C03)");
        }
        if w.end == "timeout" {
          return Outcome::discarded("execution-timeout(inconclusive)");
        }
        let detail = |what: &str| format!("{what}\nreference: end={} lines={:?}\nwasm:      end={} lines={:?}\n{}", end_str(&reference.end), short_lines(&reference.lines), exec_str(w), short_lines(&w.lines), describe(&mods));
        if w.lines != reference.lines {
          out.fail("wasm-vs-reference/printed-lines-differ", detail(&format!("printed lines differ: {}", first_diff(&reference.lines, &w.lines))));
          return out;
        }
        let ok = match (&reference.end, w.end.as_str()) {
          (End::Return, "ok") => true,
          (End::Panic(m), "panic") => *m == w.message,
          (End::VecBounds, "trap") => w.message.contains("unreachable"),
          _ => false,
        };
        if !ok {
          let wclass = if w.end == "trap" || w.end == "panic" { format!("{}:{}", w.end, if w.end == "trap" { trap_class(w) } else { "msg".into() }) } else { w.end.clone() };
          let rclass = match &reference.end { End::Return => "return", End::Panic(_) => "panic", End::VecBounds => "vec-bounds", _ => "other" };
          out.fail(format!("wasm-vs-reference/end-differs/{rclass}->{wclass}"), detail("the run ends differently"));
        }
        out
      }
    }
  }
}

fn short_lines(l: &[String]) -> Vec<String> {
  l.iter().take(12).map(|s| super::fmt_common::short(s, 80)).collect()
}

// ======================================================================= C04

pub struct C04;

impl Prop for C04 {
  fn id(&self) -> &'static str {
    "C04"
  }
  fn rule(&self) -> String {
    "G1 programs with value-level emphasis (division / remainder with operands of every sign incl. opaque run-time ints, Str.fromInt / toInt round trips, string concatenation, Vec of ints / structs / enums / closures with push / pop / get / set / length, closures, matches) plus the repository's tests; oracle: differential execution of the emitted TypeScript (type-stripped, run in a fresh V8 context) and the emitted WebAssembly in node 22: same printed lines in order and same end class (both return, both panic with equal message, both abnormal for Vec bounds); runs the reference interpreter marks overflow / div-by-zero / toInt-undefined are excluded and counted; non-trivial = the reference run executed >=1 of {negative-operand division, Vec operation, string operation, closure call, match}; distinct = hash of the program text".into()
  }
  fn assumptions(&self) -> Vec<String> {
    vec![
      "exclusion of implementation-defined runs is decided by the reference interpreter".into(),
      "string literals are plain ASCII without escapes and Vec<int> elements stay below 2^30 in generated programs: the recorded findings about escapes / non-ASCII / 31-bit Vec elements are excluded by construction and re-observed by probes".into(),
    ]
  }
  fn params(&self, tier: Tier) -> Params {
    match tier {
      Tier::Quick => Params { cases: 12_000, tape_len: 1500, workers: 14, stack_mb: 64, worker_timeout_s: 1500, shrink_iters: 600 },
      Tier::Thorough => Params { cases: 80_000, tape_len: 4000, workers: 16, stack_mb: 64, worker_timeout_s: 5 * 3600, shrink_iters: 600 },
    }
  }
  fn generate(&self, t: &mut Tape, tier: Tier) -> Value {
    // equality of Vec values compares elements by identity on both backends; whether two strings are
    // "the same" element is decided by the run-time library of each backend, so it is part of what must agree
    gen_g1("C04", t, tier, |c| c.vec_equality = true)
  }
  fn fixed_cases(&self, _tier: Tier) -> Vec<Value> {
    repo_cases()
  }
  fn check(&self, art: &Value) -> Outcome {
    let mut out = Outcome::default();
    let (mods, entry) = mods_of(art);
    out.key = fnv(describe(&mods).as_bytes());
    let feats = features(art);
    let is_repo = feats.iter().any(|f| f == "repository-tests");
    let Some(reference) = reference_run(&mods, &entry, if is_repo { 400_000_000 } else { 300_000 }) else {
      return Outcome::discarded("reference-could-not-load-program");
    };
    out.sample = Some(sample(art, &end_str(&reference.end)));
    match &reference.end {
      End::Excluded(r) => return Outcome::discarded(format!("excluded-by-spec:{r}")),
      End::Budget => return Outcome::discarded("reference-budget"),
      End::Stuck(m) => return Outcome::discarded(format!("reference-stuck:{}", msg_class(m))),
      _ => {}
    }
    let ev = |k: &str| reference.events.get(k).copied().unwrap_or(0) > 0;
    for k in ["div-negative-operand", "vec-op", "str-concat", "str-fromInt", "str-toInt", "closure-call", "match", "method-call", "enum-alloc", "struct-alloc"] {
      if ev(k) {
        out.label(format!("ran:{k}"));
      }
    }
    out.nontrivial = ev("div-negative-operand") || ev("vec-op") || ev("str-concat") || ev("str-fromInt") || ev("closure-call") || ev("match");
    match run_pipeline(&mods, &entry, true) {
      Pipeline::Rejected(_) => Outcome::discarded("rejected-by-checker"),
      Pipeline::CompilePanic(_) => Outcome::discarded("compiler-panic(C03)"),
      Pipeline::NoNode => Outcome::discarded("INFRA:node-unavailable"),
      Pipeline::Executed(x) => {
        let (w, t) = (&x.wasm, x.ts.as_ref().unwrap());
        if w.end == "infra" || t.end == "infra" {
          return Outcome::discarded("INFRA:node-worker-died");
        }
        if matches!(w.end.as_str(), "compile-error" | "link-error") || t.end == "syntax-error" {
          return Outcome::discarded("artefact-not-loadable(C03)");
        }
        if w.end == "timeout" || t.end == "timeout" {
          // e.g. the TypeScript backend's `==` on a deeply shared structure stringifies it (exponential)
          return Outcome::discarded("execution-timeout(inconclusive)");
        }
        let detail = |what: &str| format!("{what}\nreference: end={}\nwasm: end={} lines={:?}\nts:   end={} lines={:?}\n{}", end_str(&reference.end), exec_str(w), short_lines(&w.lines), exec_str(t), short_lines(&t.lines), describe(&mods));
        if w.lines != t.lines {
          // recorded finding: `!x` / `typeof x === 'object'` stay JavaScript booleans, so an int that the
          // optimiser derived from a negation prints as true / false; everything else must agree
          let tokens_agree = |a: &String, b: &String| {
            let (x, y): (Vec<&str>, Vec<&str>) = (a.split(' ').collect(), b.split(' ').collect());
            x.len() == y.len() && x.iter().zip(&y).all(|(p, q)| p == q || (*p == "1" && *q == "true") || (*p == "0" && *q == "false") || (*q == "NaN" && p.parse::<i64>().is_ok()))
          };
          // the same JavaScript boolean, sent through Str.fromInt(..).toInt(), becomes NaN and poisons sums
          let nan = t.lines.iter().any(|l| l.split(' ').any(|x| x == "NaN"));
          if w.lines.len() == t.lines.len() && w.lines.iter().zip(&t.lines).all(|(a, b)| tokens_agree(a, b)) {
            out.fail(if nan { "ts-vs-wasm/nan-for-int" } else { "ts-vs-wasm/boolean-printed-for-int" }, detail(&format!("the TypeScript run prints true / false where the WebAssembly run prints 1 / 0: {}", first_diff(&w.lines, &t.lines))));
          } else {
            out.fail("ts-vs-wasm/printed-lines-differ", detail(&format!("printed lines differ: {}", first_diff(&w.lines, &t.lines))));
            return out;
          }
        }
        let abnormal = |e: &crate::engine::node::Exec| e.end == "trap" || e.end == "panic";
        let same_end = match (w.end.as_str(), t.end.as_str()) {
          ("ok", "ok") => true,
          ("panic", "panic") => w.message == t.message,
          ("stack", "stack") => true,
          _ if matches!(reference.end, End::VecBounds) => abnormal(w) && abnormal(t),
          _ => false,
        };
        if !same_end {
          out.fail(format!("ts-vs-wasm/end-differs/wasm={}/ts={}", w.end, t.end), detail("the two backends end differently"));
        }
        out
      }
    }
  }
}

// ======================================================================= C03

pub struct C03;

const ALLOWED_TRAPS: &[&str] = &["divide by zero", "integer overflow", "remainder by zero", "division by zero", "divide result unrepresentable"];

/// memory exhaustion is the heap's analogue of the permitted call-stack exhaustion
const RESOURCE: &[&str] = &["requested new array is too large", "Invalid string length", "Invalid array length", "out of memory", "allocation failed"];

impl Prop for C03 {
  fn id(&self) -> &'static str {
    "C03"
  }
  fn rule(&self) -> String {
    "programs the checker accepts: G1 programs (accepted by construction) and accepted token-level mutants of the repository's tests/*.sam + std; oracle (validity predicate): compile_sources finishes without panic, the module validates (wasmparser with GC features) and instantiates in V8, the TypeScript survives type stripping and parsing, and the run ends only in a permitted way (return, Process.panic, Vec bounds panic confirmed by the reference run or - for mutants - in a program that calls pop/get/set, call-stack exhaustion, arithmetic traps); illegal cast / null reference / signature mismatch / out-of-bounds struct access / unreachable without a Vec cause are violations; non-trivial = accepted program with >=1 class whose run executes >=1 call; distinct = hash of the program text".into()
  }
  fn assumptions(&self) -> Vec<String> {
    vec!["time-outs of mutants are inconclusive (a mutant may legitimately loop)".into(), "wasmparser 0.252 and V8 12.4 are trusted as validators".into()]
  }
  fn params(&self, tier: Tier) -> Params {
    match tier {
      Tier::Quick => Params { cases: 7_000, tape_len: 1500, workers: 14, stack_mb: 64, worker_timeout_s: 1500, shrink_iters: 600 },
      Tier::Thorough => Params { cases: 80_000, tape_len: 4000, workers: 16, stack_mb: 64, worker_timeout_s: 5 * 3600, shrink_iters: 600 },
    }
  }
  fn generate(&self, t: &mut Tape, tier: Tier) -> Value {
    if t.bool(1, 2) {
      if let Some(v) = gen_repo_mutant(t) {
        return v;
      }
    }
    gen_g1("C03", t, tier, |_| {})
  }
  fn fixed_cases(&self, _tier: Tier) -> Vec<Value> {
    repo_cases()
  }
  fn check(&self, art: &Value) -> Outcome {
    let mut out = Outcome::default();
    let (mods, entry) = mods_of(art);
    out.key = fnv(describe(&mods).as_bytes());
    let feats = features(art);
    let is_repo = feats.iter().any(|f| f == "repository-tests");
    let is_mutant = feats.iter().any(|f| f == "mutant");
    out.label(if is_mutant { "origin:mutant" } else if is_repo { "origin:repository" } else { "origin:G1" });
    if is_mutant {
      out.label(format!("mutation:{}", art["mutation"].as_str().unwrap_or("?")));
    }
    let reference = reference_run(&mods, &entry, if is_repo { 400_000_000 } else { 300_000 });
    out.sample = Some(sample(art, &reference.as_ref().map(|r| end_str(&r.end)).unwrap_or("n/a".into())));
    if !is_mutant && !is_repo && matches!(reference.as_ref().map(|r| &r.end), Some(End::Budget)) {
      // too expensive to execute (the generator bounds work by construction; this is its safety net)
      return Outcome::discarded("reference-budget");
    }
    match run_pipeline(&mods, &entry, true) {
      Pipeline::Rejected(_) => Outcome::discarded(if is_mutant { "mutant-rejected-by-checker" } else { "rejected-by-checker" }),
      Pipeline::NoNode => Outcome::discarded("INFRA:node-unavailable"),
      Pipeline::CompilePanic(e) => {
        out.fail(format!("compile-panic/{}/{}", e.0, msg_class(&e.1)), format!("the checker accepted the program but compile_sources panicked: {}\n{}", e.1, describe(&mods)));
        out
      }
      Pipeline::Executed(x) => {
        let (w, t) = (&x.wasm, x.ts.as_ref().unwrap());
        if w.end == "infra" || t.end == "infra" {
          return Outcome::discarded("INFRA:node-worker-died");
        }
        let calls = reference.as_ref().map(|r| r.events.get("call").copied().unwrap_or(0) + r.events.get("method-call").copied().unwrap_or(0)).unwrap_or(0);
        out.nontrivial = calls >= 1 && mods.iter().any(|(_, t)| t.contains("class "));
        if let Err(m) = &x.wasm_valid {
          out.fail(format!("wasm-invalid/{}", engine_msg_class(m)), format!("emitted module does not validate: {m}\n{}", describe(&mods)));
        }
        if matches!(w.end.as_str(), "compile-error" | "link-error") {
          out.fail(format!("wasm-not-instantiable/{}/{}", w.end, trap_class(w)), format!("V8 refuses the emitted module: {}\n{}", exec_str(w), describe(&mods)));
        }
        if t.end == "syntax-error" {
          out.fail(format!("ts-syntax-error/{}", trap_class(t)), format!("emitted TypeScript is not syntactically valid: {}\n{}", exec_str(t), describe(&mods)));
        }
        let vec_cause = match &reference {
          Some(r) if !matches!(r.end, End::Budget | End::Stuck(_) | End::Excluded(_)) && !is_mutant => matches!(r.end, End::VecBounds),
          _ => mods.iter().any(|(_, t)| t.contains(".pop(") || t.contains(".get(") || t.contains(".set(")),
        };
        // Str.toInt on a non-numeral is implementation-defined (spec 10.1): any ending is permitted then
        let toint_undefined = matches!(reference.as_ref().map(|r| &r.end), Some(End::Excluded(r)) if r.starts_with("toInt"));
        match w.end.as_str() {
          "ok" | "panic" | "stack" => {}
          _ if toint_undefined => out.label("wasm:end-after-undefined-toInt"),
          "timeout" => out.label("wasm:timeout(inconclusive)"),
          "trap" => {
            let m = w.message.as_str();
            let allowed = ALLOWED_TRAPS.iter().any(|a| m.contains(a)) || (m.contains("unreachable") && vec_cause) || RESOURCE.iter().any(|a| m.contains(a));
            if !allowed {
              out.fail(format!("engine-fault/wasm/{}", trap_class(w)), format!("accepted program ends in an engine-level fault: {}\nreference end: {}\n{}", exec_str(w), reference.as_ref().map(|r| end_str(&r.end)).unwrap_or_default(), describe(&mods)));
            }
          }
          other => {
            if !matches!(other, "compile-error" | "link-error") {
              out.fail(format!("bad-end/wasm/{other}/{}", trap_class(w)), format!("unexpected end of the WebAssembly run: {}\n{}", exec_str(w), describe(&mods)));
            }
          }
        }
        match t.end.as_str() {
          "ok" | "panic" | "stack" | "syntax-error" => {}
          "timeout" => out.label("ts:timeout(inconclusive)"),
          _ if RESOURCE.iter().any(|a| t.message.contains(a)) => out.label("ts:resource-exhaustion"),
          other => out.fail(format!("bad-end/ts/{other}/{}", trap_class(t)), format!("unexpected end of the TypeScript run: {}\n{}", exec_str(t), describe(&mods))),
        }
        out
      }
    }
  }
}

// ----------------------------------------------------------------------- accepted mutants

use crate::model::toks::{Kind, tokenize};

fn test_modules() -> &'static Vec<(Vec<String>, String)> {
  static M: std::sync::OnceLock<Vec<(Vec<String>, String)>> = std::sync::OnceLock::new();
  M.get_or_init(crate::model::front::repo_test_modules)
}

/// tests.* modules reachable from `root` through imports
fn needed_test_modules(root: &str) -> Vec<(Vec<String>, String)> {
  let all = test_modules();
  let mut need = vec![root.to_string()];
  let mut i = 0;
  while i < need.len() {
    if let Some((_, text)) = all.iter().find(|(n, _)| n.join(".") == need[i]) {
      for part in text.split("from ").skip(1) {
        let path: String = part.chars().take_while(|c| c.is_ascii_alphanumeric() || *c == '.').collect();
        let path = path.trim_end_matches('.').to_string();
        if path.starts_with("tests.") && !need.contains(&path) {
          need.push(path);
        }
      }
    }
    i += 1;
  }
  all.iter().filter(|(n, _)| need.contains(&n.join("."))).cloned().collect()
}

/// one semantic token-level edit of a repository test module; the checker decides whether it is accepted
fn gen_repo_mutant(t: &mut Tape) -> Option<Value> {
  let all = test_modules();
  // modules exposing `class X { ... function run(): unit`
  let hosts: Vec<&(Vec<String>, String)> = all.iter().filter(|(n, text)| text.contains("function run(): unit") && text.contains(&format!("class {}", n[1])) && n[1] != "AllTests" && n[1] != "Benchmark").collect();
  if hosts.is_empty() {
    return None;
  }
  let (name, text) = hosts[t.choose(hosts.len())];
  let toks = tokenize(text);
  let body_start = toks.iter().position(|k| k.kind == Kind::Keyword && k.text == "class")?;
  let idx: Vec<usize> = (body_start..toks.len()).filter(|i| !toks[*i].is_comment()).collect();
  let mut text2 = text.clone();
  let mut op = "";
  // AST-guided: replace the text of one expression (incl. whole lambda bodies, call arguments, branches)
  // by a literal; the checker decides whether the mutant is accepted
  if t.bool(1, 2)
    && let Ok(p) = crate::model::front::parse(text, &["tests", &name[1]])
    && p.syntax_errors.is_empty()
  {
    let nodes = crate::model::astwalk::walk_module(&p.heap, &p.module);
    let exprs: Vec<&crate::model::astwalk::Node> = nodes.iter().filter(|n| matches!(n.kind, "literal" | "local" | "call" | "binary" | "field-access" | "lambda" | "if" | "match" | "unary" | "tuple" | "classid")).collect();
    let offs = super::c14::line_offsets(text);
    if !exprs.is_empty() {
      let n = exprs[t.choose(exprs.len())];
      // lambdas: replace the body only (keeps the parameter list, exercises hint-based checking)
      let target = if n.kind == "lambda" {
        let idx = nodes.iter().position(|x| std::ptr::eq(x, n)).unwrap();
        nodes.iter().enumerate().filter(|(_, c)| c.parent == Some(idx) && c.kind != "lambda-params").map(|(_, c)| c).next_back().unwrap_or(n)
      } else {
        n
      };
      let s0 = offs[target.loc.start.0 as usize] + target.loc.start.1 as usize;
      let e0 = offs[target.loc.end.0 as usize] + target.loc.end.1 as usize;
      if s0 < e0 && e0 <= text.len() && text.is_char_boundary(s0) && text.is_char_boundary(e0) {
        let lit = ["\"mut\"", "7", "true", "{  }", "(1, \"m\")"][t.choose(5)];
        text2.replace_range(s0..e0, lit);
        op = if n.kind == "lambda" { "lambda-body->literal" } else { "expr->literal" };
      }
    }
  }
  let lowers: Vec<&str> = toks.iter().filter(|k| k.kind == Kind::Lower).map(|k| k.text.as_str()).collect();
  for _attempt in 0..8 {
    if !op.is_empty() {
      break;
    }
    let i = idx[t.choose(idx.len())];
    let k = &toks[i];
    let (s, e) = (k.off, k.off + k.text.len());
    let rep: Option<(String, &str)> = match k.kind {
      Kind::Int => Some(match t.choose(4) {
        0 => ("\"mut\"".to_string(), "int->str"),
        1 => ("true".to_string(), "int->bool"),
        2 => ("0".to_string(), "int->0"),
        _ => ("2147483647".to_string(), "int->max"),
      }),
      Kind::Str => Some(match t.choose(3) {
        0 => ("7".to_string(), "str->int"),
        1 => ("\"\"".to_string(), "str->empty"),
        _ => ("false".to_string(), "str->bool"),
      }),
      Kind::Keyword if k.text == "true" => Some(("false".into(), "true->false")),
      Kind::Keyword if k.text == "false" => Some(("true".into(), "false->true")),
      Kind::Lower if !lowers.is_empty() => Some((lowers[t.choose(lowers.len())].to_string(), "id->id")),
      Kind::Op => match k.text.as_str() {
        "+" => Some(("-".into(), "op")),
        "-" => Some(("+".into(), "op")),
        "*" => Some(("/".into(), "op")),
        "<" => Some(("<=".into(), "op")),
        ">" => Some((">=".into(), "op")),
        "==" => Some(("!=".into(), "op")),
        "&&" => Some(("||".into(), "op")),
        "||" => Some(("&&".into(), "op")),
        "::" => Some(("+".into(), "op-kind")),
        _ => None,
      },
      _ => None,
    };
    if let Some((r, o)) = rep {
      if r != k.text && text[s..e] == k.text {
        text2.replace_range(s..e, &r);
        op = o;
        break;
      }
    }
  }
  if op.is_empty() {
    return None;
  }
  let root = name.join(".");
  let mut mods: Mods = needed_test_modules(&root).into_iter().map(|(n, tx)| if n == *name { (n, text2.clone()) } else { (n, tx) }).collect();
  mods.push((vec!["MutantMain".to_string()], format!("import {{ {} }} from {};\n\nclass Main {{\n  function main(): unit = {}.run()\n}}\n", name[1], root, name[1])));
  let mut art = art_of(&mods, &["MutantMain".to_string()], &["mutant"]);
  art["origin"] = json!(root);
  art["mutation"] = json!(op);
  Some(art)
}
