pub mod astwalk;
pub mod canon;
pub mod exec;
pub mod front;
pub mod interp;
pub mod sexp;
pub mod toks;
