//! Reference interpreter for the samlang source language, written from the language
//! specification (spec.md sections 4-8, 10). It walks the *parsed, unchecked* syntax
//! trees of all modules (user + std) and uses no checker output, no HIR/MIR/LIR and no
//! lowering code. It is the central oracle of C01 / C13 / C15 / C18.

use samlang_ast::source::*;
use samlang_heap::{Heap, ModuleReference, PStr};
use std::cell::RefCell;
use std::collections::HashMap;
use std::rc::Rc;

#[derive(Clone, Debug, PartialEq)]
pub enum End {
  Return,
  Panic(String),
  /// Vec pop/get/set out of range: "panics" per spec 5.12, no message defined
  VecBounds,
  /// behaviour the specification leaves to the implementation
  Excluded(String),
  /// step / depth budget of the harness exhausted: inconclusive, never a verdict
  Budget,
  /// the program uses something the interpreter cannot give a meaning to (ill-typed program)
  Stuck(String),
}

#[derive(Clone, Debug, Default)]
pub struct Flags {
  /// `==`/`!=`/Vec.eq compared non-primitive values (spec is self-contradictory here)
  pub ref_eq: bool,
  /// a call whose callee/receiver expression and arguments both had effects (spec says args first)
  pub effectful_callee: bool,
}

#[derive(Clone, Debug)]
pub struct Run {
  pub lines: Vec<String>,
  pub end: End,
  pub flags: Flags,
  pub steps: u64,
  pub events: HashMap<&'static str, u64>,
}

#[derive(Clone)]
pub enum V<'a> {
  Unit,
  Int(i32),
  Bool(bool),
  Str(Rc<String>),
  Obj(Rc<Obj<'a>>),
  Fun(Rc<Fun<'a>>),
  Vec(Rc<RefCell<Vec<V<'a>>>>),
  Class(ModuleReference, PStr),
}

pub struct Obj<'a> {
  pub module: ModuleReference,
  pub class: PStr,
  /// enum: variant name and index
  pub variant: Option<(PStr, usize)>,
  pub fields: Vec<V<'a>>,
}

pub enum Fun<'a> {
  Lambda { params: Vec<PStr>, body: &'a expr::E<()>, env: Env<'a> },
  Static { module: ModuleReference, class: PStr, name: PStr },
  Bound { receiver: V<'a>, module: ModuleReference, class: PStr, name: PStr },
  BuiltinStatic { class: PStr, name: PStr },
  BuiltinMethod { receiver: V<'a>, name: PStr },
}

#[derive(Clone)]
pub struct Env<'a>(Option<Rc<EnvNode<'a>>>);

pub struct EnvNode<'a> {
  name: PStr,
  value: V<'a>,
  next: Env<'a>,
}

impl<'a> Env<'a> {
  pub fn empty() -> Self {
    Env(None)
  }
  pub fn bind(&self, name: PStr, value: V<'a>) -> Env<'a> {
    Env(Some(Rc::new(EnvNode { name, value, next: self.clone() })))
  }
  pub fn get(&self, name: PStr) -> Option<V<'a>> {
    let mut cur = &self.0;
    while let Some(n) = cur {
      if n.name == name {
        return Some(n.value.clone());
      }
      cur = &n.next.0;
    }
    None
  }
}

pub enum Stop {
  Panic(String),
  VecBounds,
  Excluded(String),
  Budget,
  Stuck(String),
}

type R<T> = Result<T, Stop>;

struct ClassInfo<'a> {
  fields: Option<Vec<PStr>>,
  variants: Option<Vec<(PStr, usize)>>,
  members: HashMap<PStr, &'a ClassMemberDefinition<()>>,
}

pub struct Interp<'a> {
  heap: &'a Heap,
  classes: HashMap<(ModuleReference, PStr), ClassInfo<'a>>,
  lines: Vec<String>,
  steps: u64,
  max_steps: u64,
  depth: u32,
  max_depth: u32,
  flags: Flags,
  events: HashMap<&'static str, u64>,
  max_line_bytes: usize,
}

fn unescape(s: &str) -> String {
  // spec 2.2: \t \v \0 \b \f \n \r \" \\ ; the parser has already turned \" into "
  let mut out = String::with_capacity(s.len());
  let mut it = s.chars();
  while let Some(c) = it.next() {
    if c != '\\' {
      out.push(c);
      continue;
    }
    match it.next() {
      Some('t') => out.push('\t'),
      Some('v') => out.push('\u{b}'),
      Some('0') => out.push('\0'),
      Some('b') => out.push('\u{8}'),
      Some('f') => out.push('\u{c}'),
      Some('n') => out.push('\n'),
      Some('r') => out.push('\r'),
      Some('"') => out.push('"'),
      Some('\\') => out.push('\\'),
      Some(o) => {
        out.push('\\');
        out.push(o)
      }
      None => out.push('\\'),
    }
  }
  out
}

impl<'a> Interp<'a> {
  pub fn new(heap: &'a Heap, modules: &'a HashMap<ModuleReference, Module<()>>) -> Interp<'a> {
    let mut classes = HashMap::new();
    for (mr, m) in modules {
      for t in &m.toplevels {
        if let Toplevel::Class(c) = t {
          let (fields, variants) = match &c.type_definition {
            Some(TypeDefinition::Struct { fields, .. }) => (Some(fields.iter().map(|f| f.name.name).collect()), None),
            Some(TypeDefinition::Enum { variants, .. }) => (None, Some(variants.iter().map(|v| (v.name.name, v.associated_data_types.as_ref().map(|l| l.annotations.len()).unwrap_or(0))).collect())),
            None => (None, None),
          };
          let mut members = HashMap::new();
          for m in &c.members.members {
            members.entry(m.decl.name.name).or_insert(m);
          }
          classes.entry((*mr, c.name.name)).or_insert(ClassInfo { fields, variants, members });
        }
      }
    }
    Interp { heap, classes, lines: vec![], steps: 0, max_steps: 2_000_000, depth: 0, max_depth: 3000, flags: Flags::default(), events: HashMap::new(), max_line_bytes: 1 << 18 }
  }

  pub fn with_budget(mut self, steps: u64, depth: u32) -> Self {
    self.max_steps = steps;
    self.max_depth = depth;
    self
  }

  fn s(&self, p: PStr) -> String {
    p.as_str(self.heap).to_string()
  }

  fn ev(&mut self, e: &'static str) {
    *self.events.entry(e).or_default() += 1;
  }

  /// Runs `Main.main()` of the given module.
  pub fn run_main(mut self, module: ModuleReference) -> Run {
    let end = match self.call_static(module, PStr::MAIN_TYPE, PStr::MAIN_FN, vec![]) {
      Ok(_) => End::Return,
      Err(Stop::Panic(m)) => End::Panic(m),
      Err(Stop::VecBounds) => End::VecBounds,
      Err(Stop::Excluded(r)) => End::Excluded(r),
      Err(Stop::Budget) => End::Budget,
      Err(Stop::Stuck(m)) => End::Stuck(m),
    };
    Run { lines: self.lines, end, flags: self.flags, steps: self.steps, events: self.events }
  }

  fn tick(&mut self) -> R<()> {
    self.steps += 1;
    if self.steps > self.max_steps { Err(Stop::Budget) } else { Ok(()) }
  }

  fn stuck<T>(&self, msg: impl Into<String>) -> R<T> {
    Err(Stop::Stuck(msg.into()))
  }

  fn call_static(&mut self, module: ModuleReference, class: PStr, name: PStr, args: Vec<V<'a>>) -> R<V<'a>> {
    let Some(info) = self.classes.get(&(module, class)) else {
      return self.stuck(format!("unknown class {}.{}", module.pretty_print(self.heap), self.s(class)));
    };
    if let Some(m) = info.members.get(&name).copied()
      && !m.decl.is_method
    {
      return self.invoke_member(m, None, args);
    }
    // generated constructors
    if name == PStr::INIT
      && let Some(fields) = &info.fields
    {
      if fields.len() != args.len() {
        return self.stuck("init arity");
      }
      self.ev("struct-alloc");
      return Ok(V::Obj(Rc::new(Obj { module, class, variant: None, fields: args })));
    }
    if let Some(variants) = &info.variants
      && let Some(idx) = variants.iter().position(|(n, _)| *n == name)
    {
      if variants[idx].1 != args.len() {
        return self.stuck("variant arity");
      }
      self.ev("enum-alloc");
      return Ok(V::Obj(Rc::new(Obj { module, class, variant: Some((name, idx)), fields: args })));
    }
    self.stuck(format!("no static member {}.{}", self.s(class), self.s(name)))
  }

  fn invoke_member(&mut self, m: &'a ClassMemberDefinition<()>, this: Option<V<'a>>, args: Vec<V<'a>>) -> R<V<'a>> {
    let params = &m.decl.parameters.parameters;
    if params.len() != args.len() {
      return self.stuck(format!("arity mismatch calling {}", self.s(m.decl.name.name)));
    }
    let mut env = Env::empty();
    if let Some(t) = this {
      env = env.bind(PStr::THIS, t);
    }
    for (p, a) in params.iter().zip(args) {
      env = env.bind(p.name.name, a);
    }
    self.ev("call");
    self.enter()?;
    let r = self.eval(&m.body, &env);
    self.depth -= 1;
    r
  }

  fn enter(&mut self) -> R<()> {
    self.depth += 1;
    if self.depth > self.max_depth { Err(Stop::Budget) } else { Ok(()) }
  }

  fn apply(&mut self, f: &V<'a>, args: Vec<V<'a>>) -> R<V<'a>> {
    let V::Fun(f) = f else { return self.stuck("calling a non-function") };
    match f.as_ref() {
      Fun::Lambda { params, body, env } => {
        if params.len() != args.len() {
          return self.stuck("lambda arity");
        }
        let mut e = env.clone();
        for (p, a) in params.iter().zip(args) {
          e = e.bind(*p, a);
        }
        self.ev("closure-call");
        self.enter()?;
        let r = self.eval(body, &e);
        self.depth -= 1;
        r
      }
      Fun::Static { module, class, name } => self.call_static(*module, *class, *name, args),
      Fun::Bound { receiver, module, class, name } => {
        let Some(info) = self.classes.get(&(*module, *class)) else { return self.stuck("unknown class of receiver") };
        let Some(m) = info.members.get(name).copied() else { return self.stuck("unknown method") };
        self.ev("method-call");
        self.invoke_member(m, Some(receiver.clone()), args)
      }
      Fun::BuiltinStatic { class, name } => self.builtin_static(*class, *name, args),
      Fun::BuiltinMethod { receiver, name } => self.builtin_method(receiver, *name, args),
    }
  }

  fn builtin_static(&mut self, class: PStr, name: PStr, args: Vec<V<'a>>) -> R<V<'a>> {
    match (self.s(class).as_str(), self.s(name).as_str(), args.as_slice()) {
      ("Process", "println", [V::Str(s)]) => {
        if s.len() > self.max_line_bytes {
          return Err(Stop::Budget);
        }
        self.lines.push(s.as_ref().clone());
        Ok(V::Unit)
      }
      ("Process", "panic", [V::Str(s)]) => Err(Stop::Panic(s.as_ref().clone())),
      ("Str", "fromInt", [V::Int(i)]) => {
        self.ev("str-fromInt");
        Ok(V::Str(Rc::new(i.to_string())))
      }
      ("Vec", "empty", []) => {
        self.ev("vec-op");
        Ok(V::Vec(Rc::new(RefCell::new(vec![]))))
      }
      ("Vec", "of", [x]) => {
        self.ev("vec-op");
        Ok(V::Vec(Rc::new(RefCell::new(vec![x.clone()]))))
      }
      ("Vec", "withCapacity", [V::Int(n)]) => {
        if *n < 0 {
          return Err(Stop::Excluded("withCapacity-negative".into()));
        }
        self.ev("vec-op");
        Ok(V::Vec(Rc::new(RefCell::new(vec![]))))
      }
      _ => self.stuck(format!("unknown builtin {}.{}", self.s(class), self.s(name))),
    }
  }

  fn builtin_method(&mut self, recv: &V<'a>, name: PStr, args: Vec<V<'a>>) -> R<V<'a>> {
    match (recv, self.s(name).as_str(), args.as_slice()) {
      (V::Str(s), "toInt", []) => {
        self.ev("str-toInt");
        let b = s.as_bytes();
        let digits = if b.first() == Some(&b'-') { &b[1..] } else { b };
        if digits.is_empty() || !digits.iter().all(|c| c.is_ascii_digit()) {
          return Err(Stop::Excluded("toInt-non-numeral".into()));
        }
        match s.parse::<i32>() {
          Ok(i) => Ok(V::Int(i)),
          Err(_) => Err(Stop::Excluded("toInt-out-of-range".into())),
        }
      }
      (V::Vec(v), "length", []) => {
        self.ev("vec-op");
        Ok(V::Int(v.borrow().len() as i32))
      }
      (V::Vec(_), "capacity", []) => Err(Stop::Excluded("capacity-is-advisory".into())),
      (V::Vec(_), "reserve", [V::Int(n)]) => {
        if *n < 0 {
          return Err(Stop::Excluded("reserve-negative".into()));
        }
        Ok(V::Unit)
      }
      (V::Vec(v), "push", [x]) => {
        self.ev("vec-op");
        v.borrow_mut().push(x.clone());
        Ok(V::Unit)
      }
      (V::Vec(v), "pop", []) => {
        self.ev("vec-op");
        v.borrow_mut().pop().ok_or(Stop::VecBounds)
      }
      (V::Vec(v), "get", [V::Int(i)]) => {
        self.ev("vec-op");
        let v = v.borrow();
        if *i < 0 || (*i as usize) >= v.len() { Err(Stop::VecBounds) } else { Ok(v[*i as usize].clone()) }
      }
      (V::Vec(v), "set", [V::Int(i), x]) => {
        self.ev("vec-op");
        let mut v = v.borrow_mut();
        if *i < 0 || (*i as usize) >= v.len() {
          Err(Stop::VecBounds)
        } else {
          v[*i as usize] = x.clone();
          Ok(V::Unit)
        }
      }
      (V::Vec(a), "eq", [V::Vec(b)]) => {
        self.ev("vec-op");
        let (a, b) = (a.borrow(), b.borrow());
        if a.len() != b.len() {
          return Ok(V::Bool(false));
        }
        for (x, y) in a.iter().zip(b.iter()) {
          if !self.identity_eq(x, y)? {
            return Ok(V::Bool(false));
          }
        }
        Ok(V::Bool(true))
      }
      _ => self.stuck(format!("unknown builtin method {}", self.s(name))),
    }
  }

  /// `==` as both backends implement it for non-primitive values (identity); flagged
  fn identity_eq(&mut self, a: &V<'a>, b: &V<'a>) -> R<bool> {
    Ok(match (a, b) {
      (V::Int(x), V::Int(y)) => x == y,
      (V::Bool(x), V::Bool(y)) => x == y,
      (V::Unit, V::Unit) => true,
      (V::Str(x), V::Str(y)) => {
        self.flags.ref_eq = true;
        x == y
      }
      (V::Obj(x), V::Obj(y)) => {
        self.flags.ref_eq = true;
        Rc::ptr_eq(x, y)
      }
      (V::Fun(x), V::Fun(y)) => {
        self.flags.ref_eq = true;
        Rc::ptr_eq(x, y)
      }
      (V::Vec(x), V::Vec(y)) => {
        self.flags.ref_eq = true;
        Rc::ptr_eq(x, y)
      }
      _ => return self.stuck("comparing values of different kinds"),
    })
  }

  fn member_of_value(&mut self, obj: V<'a>, name: PStr) -> R<V<'a>> {
    match &obj {
      V::Class(module, class) => {
        if *module == ModuleReference::ROOT && matches!(self.s(*class).as_str(), "Process" | "Str" | "Vec") {
          return Ok(V::Fun(Rc::new(Fun::BuiltinStatic { class: *class, name })));
        }
        Ok(V::Fun(Rc::new(Fun::Static { module: *module, class: *class, name })))
      }
      V::Str(_) | V::Vec(_) => Ok(V::Fun(Rc::new(Fun::BuiltinMethod { receiver: obj.clone(), name }))),
      V::Obj(o) => {
        let Some(info) = self.classes.get(&(o.module, o.class)) else { return self.stuck("object of unknown class") };
        if let Some(m) = info.members.get(&name)
          && m.decl.is_method
        {
          return Ok(V::Fun(Rc::new(Fun::Bound { receiver: obj.clone(), module: o.module, class: o.class, name })));
        }
        if let Some(fields) = &info.fields
          && let Some(i) = fields.iter().position(|f| *f == name)
        {
          self.ev("field-read");
          return Ok(o.fields[i].clone());
        }
        self.stuck(format!("no member {} on {}", self.s(name), self.s(o.class)))
      }
      _ => self.stuck(format!("member access .{} on a primitive value", self.s(name))),
    }
  }

  fn has_effect_potential(e: &expr::E<()>) -> bool {
    // conservative syntactic test: anything that contains a call may print / panic
    use expr::E;
    match e {
      E::Literal(..) | E::LocalId(..) | E::ClassId(..) | E::Lambda(_) => false,
      E::FieldAccess(f) => Self::has_effect_potential(&f.object),
      E::MethodAccess(f) => Self::has_effect_potential(&f.object),
      E::Tuple(_, l) => l.expressions.iter().any(Self::has_effect_potential),
      E::Unary(u) => Self::has_effect_potential(&u.argument),
      E::Binary(b) => Self::has_effect_potential(&b.e1) || Self::has_effect_potential(&b.e2) || matches!(b.operator, expr::BinaryOperator::DIV | expr::BinaryOperator::MOD),
      _ => true,
    }
  }

  pub fn eval(&mut self, e: &'a expr::E<()>, env: &Env<'a>) -> R<V<'a>> {
    self.tick()?;
    use expr::E;
    match e {
      E::Literal(_, Literal::Int(i)) => Ok(V::Int(*i)),
      E::Literal(_, Literal::Bool(b)) => Ok(V::Bool(*b)),
      E::Literal(_, Literal::String(s)) => Ok(V::Str(Rc::new(unescape(&self.s(*s))))),
      E::LocalId(_, id) => match env.get(id.name) {
        Some(v) => Ok(v),
        None => self.stuck(format!("unbound variable {}", self.s(id.name))),
      },
      E::ClassId(_, m, id) => Ok(V::Class(*m, id.name)),
      E::Tuple(_, l) => {
        let mut vs = vec![];
        for x in &l.expressions {
          vs.push(self.eval(x, env)?);
        }
        let class = match vs.len() {
          2 => PStr::PAIR,
          3 => PStr::TRIPLE,
          4 => PStr::TUPLE_4,
          5 => PStr::TUPLE_5,
          6 => PStr::TUPLE_6,
          7 => PStr::TUPLE_7,
          8 => PStr::TUPLE_8,
          9 => PStr::TUPLE_9,
          10 => PStr::TUPLE_10,
          11 => PStr::TUPLE_11,
          12 => PStr::TUPLE_12,
          13 => PStr::TUPLE_13,
          14 => PStr::TUPLE_14,
          15 => PStr::TUPLE_15,
          16 => PStr::TUPLE_16,
          _ => return self.stuck("tuple size"),
        };
        self.ev("tuple-alloc");
        Ok(V::Obj(Rc::new(Obj { module: ModuleReference::STD_TUPLES, class, variant: None, fields: vs })))
      }
      E::FieldAccess(f) => {
        let o = self.eval(&f.object, env)?;
        self.member_of_value(o, f.field_name.name)
      }
      E::MethodAccess(f) => {
        let o = self.eval(&f.object, env)?;
        self.member_of_value(o, f.method_name.name)
      }
      E::Unary(u) => {
        let v = self.eval(&u.argument, env)?;
        match (u.operator, v) {
          (expr::UnaryOperator::NOT, V::Bool(b)) => Ok(V::Bool(!b)),
          (expr::UnaryOperator::NEG, V::Int(i)) => i.checked_neg().map(V::Int).ok_or(Stop::Excluded("overflow".into())),
          _ => self.stuck("unary operand kind"),
        }
      }
      E::Call(c) => {
        // spec 6.7.5 / 6.15(2): arguments left to right, then the callee
        let args_effect = c.arguments.expressions.iter().any(Self::has_effect_potential);
        let callee_effect = match c.callee.as_ref() {
          E::FieldAccess(f) => Self::has_effect_potential(&f.object),
          E::MethodAccess(f) => Self::has_effect_potential(&f.object),
          other => Self::has_effect_potential(other),
        };
        if args_effect && callee_effect {
          self.flags.effectful_callee = true;
        }
        let mut args = vec![];
        for a in &c.arguments.expressions {
          args.push(self.eval(a, env)?);
        }
        let f = self.eval(&c.callee, env)?;
        self.apply(&f, args)
      }
      E::Binary(b) => {
        use expr::BinaryOperator::*;
        match b.operator {
          AND => {
            let V::Bool(l) = self.eval(&b.e1, env)? else { return self.stuck("&& operand") };
            if !l {
              return Ok(V::Bool(false));
            }
            let V::Bool(r) = self.eval(&b.e2, env)? else { return self.stuck("&& operand") };
            Ok(V::Bool(r))
          }
          OR => {
            let V::Bool(l) = self.eval(&b.e1, env)? else { return self.stuck("|| operand") };
            if l {
              return Ok(V::Bool(true));
            }
            let V::Bool(r) = self.eval(&b.e2, env)? else { return self.stuck("|| operand") };
            Ok(V::Bool(r))
          }
          op => {
            let l = self.eval(&b.e1, env)?;
            let r = self.eval(&b.e2, env)?;
            self.binop(op, l, r)
          }
        }
      }
      E::IfElse(i) => self.eval_if(i, env),
      E::Match(m) => {
        let v = self.eval(&m.matched, env)?;
        self.ev("match");
        for c in &m.cases {
          if let Some(env2) = self.matches(&c.pattern, &v, env)? {
            return self.eval(&c.body, &env2);
          }
        }
        self.stuck("no match arm matched")
      }
      E::Lambda(l) => {
        self.ev("closure-alloc");
        Ok(V::Fun(Rc::new(Fun::Lambda { params: l.parameters.parameters.iter().map(|p| p.name.name).collect(), body: &l.body, env: env.clone() })))
      }
      E::Block(b) => self.eval_block(b, env),
    }
  }

  fn eval_block(&mut self, b: &'a expr::Block<()>, env: &Env<'a>) -> R<V<'a>> {
    let mut env = env.clone();
    for s in &b.statements {
      match s {
        expr::Statement::Declaration(d) => {
          let v = self.eval(&d.assigned_expression, &env)?;
          match self.matches(&d.pattern, &v, &env)? {
            Some(e2) => env = e2,
            None => return self.stuck("let pattern did not match"),
          }
        }
        expr::Statement::Expression(e) => {
          self.eval(e, &env)?;
        }
      }
    }
    match &b.expression {
      Some(e) => self.eval(e, &env),
      None => Ok(V::Unit),
    }
  }

  fn eval_if(&mut self, i: &'a expr::IfElse<()>, env: &Env<'a>) -> R<V<'a>> {
    let taken = match i.condition.as_ref() {
      expr::IfElseCondition::Expression(c) => {
        let V::Bool(b) = self.eval(c, env)? else { return self.stuck("if condition") };
        if b { Some(env.clone()) } else { None }
      }
      expr::IfElseCondition::Guard(p, c) => {
        let v = self.eval(c, env)?;
        self.ev("if-let");
        self.matches(p, &v, env)?
      }
    };
    match taken {
      Some(e2) => self.eval_block(&i.e1, &e2),
      None => match i.e2.as_ref() {
        expr::IfElseOrBlock::IfElse(n) => self.eval_if(n, env),
        expr::IfElseOrBlock::Block(b) => self.eval_block(b, env),
      },
    }
  }

  fn binop(&mut self, op: expr::BinaryOperator, l: V<'a>, r: V<'a>) -> R<V<'a>> {
    use expr::BinaryOperator::*;
    let ov = || Stop::Excluded("overflow".into());
    match (op, &l, &r) {
      (MUL, V::Int(a), V::Int(b)) => a.checked_mul(*b).map(V::Int).ok_or_else(ov),
      (PLUS, V::Int(a), V::Int(b)) => a.checked_add(*b).map(V::Int).ok_or_else(ov),
      (MINUS, V::Int(a), V::Int(b)) => a.checked_sub(*b).map(V::Int).ok_or_else(ov),
      (DIV, V::Int(a), V::Int(b)) => {
        if *b == 0 {
          return Err(Stop::Excluded("div0".into()));
        }
        if *a < 0 || *b < 0 {
          self.ev("div-negative-operand");
        }
        a.checked_div(*b).map(V::Int).ok_or_else(ov)
      }
      (MOD, V::Int(a), V::Int(b)) => {
        if *b == 0 {
          return Err(Stop::Excluded("div0".into()));
        }
        if *a < 0 || *b < 0 {
          self.ev("div-negative-operand");
        }
        a.checked_rem(*b).map(V::Int).ok_or_else(ov)
      }
      (LT, V::Int(a), V::Int(b)) => Ok(V::Bool(a < b)),
      (LE, V::Int(a), V::Int(b)) => Ok(V::Bool(a <= b)),
      (GT, V::Int(a), V::Int(b)) => Ok(V::Bool(a > b)),
      (GE, V::Int(a), V::Int(b)) => Ok(V::Bool(a >= b)),
      (EQ, _, _) => Ok(V::Bool(self.identity_eq(&l, &r)?)),
      (NE, _, _) => Ok(V::Bool(!self.identity_eq(&l, &r)?)),
      (CONCAT, V::Str(a), V::Str(b)) => {
        self.ev("str-concat");
        if a.len() + b.len() > self.max_line_bytes {
          return Err(Stop::Budget);
        }
        let mut s = String::with_capacity(a.len() + b.len());
        s.push_str(a);
        s.push_str(b);
        Ok(V::Str(Rc::new(s)))
      }
      _ => self.stuck(format!("binary operator {} on unexpected operand kinds", op.kind_str())),
    }
  }

  /// First-match pattern semantics (spec 8.8, 8.9)
  fn matches(&mut self, p: &'a pattern::MatchingPattern<()>, v: &V<'a>, env: &Env<'a>) -> R<Option<Env<'a>>> {
    use pattern::MatchingPattern as P;
    match p {
      P::Wildcard { .. } => Ok(Some(env.clone())),
      P::Id(id, _) => Ok(Some(env.bind(id.name, v.clone()))),
      P::Or { patterns, .. } => {
        self.ev("or-pattern");
        for alt in patterns {
          if let Some(e) = self.matches(alt, v, env)? {
            return Ok(Some(e));
          }
        }
        Ok(None)
      }
      P::Tuple(t) => {
        let V::Obj(o) = v else { return self.stuck("tuple pattern on a non-object") };
        if o.variant.is_some() || o.fields.len() < t.elements.len() {
          return self.stuck("tuple pattern shape");
        }
        let mut env = env.clone();
        for (sub, fv) in t.elements.iter().zip(o.fields.iter()) {
          match self.matches(&sub.pattern, fv, &env)? {
            Some(e) => env = e,
            None => return Ok(None),
          }
        }
        Ok(Some(env))
      }
      P::Object { elements, .. } => {
        let V::Obj(o) = v else { return self.stuck("struct pattern on a non-object") };
        let Some(info) = self.classes.get(&(o.module, o.class)) else { return self.stuck("unknown class") };
        let Some(fields) = &info.fields else { return self.stuck("struct pattern on a non-struct") };
        let idx: Vec<Option<usize>> = elements.iter().map(|e| fields.iter().position(|f| *f == e.field_name.name)).collect();
        let mut env = env.clone();
        for (e, i) in elements.iter().zip(idx) {
          let Some(i) = i else { return self.stuck("unknown field in pattern") };
          match self.matches(&e.pattern, &o.fields[i], &env)? {
            Some(e2) => env = e2,
            None => return Ok(None),
          }
        }
        Ok(Some(env))
      }
      P::Variant(vp) => {
        let V::Obj(o) = v else { return self.stuck("variant pattern on a non-object") };
        let Some((tag, _)) = o.variant else { return self.stuck("variant pattern on a non-enum") };
        if tag != vp.tag.name {
          return Ok(None);
        }
        let mut env = env.clone();
        if let Some(t) = &vp.data_variables {
          if t.elements.len() > o.fields.len() {
            return self.stuck("variant pattern arity");
          }
          for (sub, fv) in t.elements.iter().zip(o.fields.iter()) {
            match self.matches(&sub.pattern, fv, &env)? {
              Some(e) => env = e,
              None => return Ok(None),
            }
          }
        }
        Ok(Some(env))
      }
    }
  }
}

/// Runs a program (all modules, std included by the caller) on a big stack.
pub fn run_program(heap: &Heap, modules: &HashMap<ModuleReference, Module<()>>, entry: ModuleReference, max_steps: u64) -> Run {
  run_program_with_depth(heap, modules, entry, max_steps, 20_000)
}

pub fn run_program_with_depth(heap: &Heap, modules: &HashMap<ModuleReference, Module<()>>, entry: ModuleReference, max_steps: u64, max_depth: u32) -> Run {
  // the interpreter recurses on the Rust stack: give it room
  std::thread::scope(|s| {
    std::thread::Builder::new()
      .stack_size(if max_depth > 100_000 { 8usize << 30 } else { 1usize << 30 })
      .spawn_scoped(s, || Interp::new(heap, modules).with_budget(max_steps, max_depth).run_main(entry))
      .unwrap()
      .join()
      .unwrap_or(Run { lines: vec![], end: End::Budget, flags: Flags::default(), steps: 0, events: HashMap::new() })
  })
}
