use sv::engine::{Tier, parent, worker};
use std::path::PathBuf;

fn usage() -> ! {
  eprintln!("usage: vcheck <ID> [--tier quick|thorough] [--replay FILE]");
  std::process::exit(2);
}

fn main() {
  let args: Vec<String> = std::env::args().skip(1).collect();
  if args.is_empty() {
    usage();
  }
  match args[0].as_str() {
    "worker" => {
      // worker ID tier seed index n cases out restart
      let prop = sv::props::by_id(&args[1]).expect("unknown property");
      let wa = worker::WorkerArgs {
        tier: Tier::parse(&args[2]),
        seed: args[3].parse().unwrap(),
        index: args[4].parse().unwrap(),
        nworkers: args[5].parse().unwrap(),
        cases: args[6].parse().unwrap(),
        out: PathBuf::from(&args[7]),
        restart: args[8].parse().unwrap(),
      };
      worker::run_worker(prop, wa);
    }
    "one" => {
      let prop = sv::props::by_id(&args[1]).expect("unknown property");
      let tier = Tier::parse(&args[2]);
      let case: serde_json::Value = serde_json::from_str(&std::fs::read_to_string(&args[3]).unwrap()).unwrap();
      let o = worker::run_one(prop, tier, &case);
      let fs: Vec<serde_json::Value> = o.failures.iter().map(|f| serde_json::json!({"sig": f.sig, "detail": f.detail})).collect();
      println!("{}", serde_json::json!({"failures": fs, "discard": o.discard, "nontrivial": o.nontrivial, "labels": o.labels, "sample": o.sample}));
    }
    "gen" => {
      // gen ID tier casefile : print the artifact a tape generates
      let prop = sv::props::by_id(&args[1]).expect("unknown property");
      let tier = Tier::parse(&args[2]);
      let case: serde_json::Value = serde_json::from_str(&std::fs::read_to_string(&args[3]).unwrap()).unwrap();
      let data: Vec<u32> = case["tape"].as_array().unwrap().iter().map(|x| x.as_u64().unwrap_or(0) as u32).collect();
      prop.setup(tier);
      let mut tape = sv::engine::Tape::new(data);
      println!("{}", serde_json::to_string_pretty(&prop.generate(&mut tape, tier)).unwrap());
    }
    "calibrate" => {
      // run tests.AllTests with the reference interpreter and compare with tests/snapshot.txt
      let mut mods = sv::model::front::repo_test_modules();
      for m in mods.iter_mut() {
        // the benchmark recurses 20 000 000 levels deep (the compiler turns it into a loop); the
        // interpreter has no tail calls, so the calibration uses a smaller n with the same property
        m.1 = m.1.replace("let bigNum = 20000000;", "let bigNum = 6014;");
      }
      let prog = sv::model::front::load_program(&mods).expect("parse");
      let entry = prog.user.iter().copied().find(|m| m.pretty_print(&prog.heap) == "tests.AllTests").expect("AllTests");
      let run = sv::model::interp::run_program_with_depth(&prog.heap, &prog.modules, entry, 2_000_000_000, 200_000);
      let expected = std::fs::read_to_string(sv::engine::repo_root().join("tests/snapshot.txt")).unwrap();
      let exp: Vec<&str> = expected.lines().collect();
      println!("end = {:?}, steps = {}, lines = {} (snapshot has {})", run.end, run.steps, run.lines.len(), exp.len());
      let got: Vec<String> = run.lines.iter().flat_map(|l| l.split('\n').map(|x| x.to_string()).collect::<Vec<_>>()).collect();
      let mut shown = 0;
      for i in 0..got.len().max(exp.len()) {
        let g = got.get(i).map(|s| s.as_str());
        let e = exp.get(i).copied();
        if g != e {
          println!("line {}: got {:?} expected {:?}", i + 1, g, e);
          shown += 1;
          if shown > 10 {
            break;
          }
        }
      }
      if shown == 0 {
        println!("CALIBRATION OK");
      }
    }
    "e2e" => {
      // compile tests.AllTests with the real pipeline, run both artefacts, compare with the snapshot
      let mods = sv::model::front::repo_test_modules();
      let entry = vec!["tests".to_string(), "AllTests".to_string()];
      let t0 = std::time::Instant::now();
      match sv::model::exec::compile(&mods, &entry) {
        sv::model::exec::CompileOutcome::Ok(c) => {
          println!("compiled in {:?}: wasm {} bytes, ts {} bytes, main {}", t0.elapsed(), c.wasm.len(), c.ts_code.len(), c.main);
          println!("wasm validation: {:?}", sv::model::exec::validate_wasm(&c.wasm));
          let mut node = sv::engine::node::Node::spawn().expect("node");
          let (w, t) = sv::model::exec::run_both(&mut node, &c, std::time::Duration::from_secs(120));
          let expected = std::fs::read_to_string(sv::engine::repo_root().join("tests/snapshot.txt")).unwrap();
          let exp: Vec<String> = expected.lines().map(|s| s.to_string()).collect();
          for (name, r) in [("wasm", &w), ("ts", &t)] {
            let got: Vec<String> = r.lines.iter().flat_map(|l| l.split('\n').map(|x| x.to_string()).collect::<Vec<_>>()).collect();
            println!("{name}: end={} msg={:?} lines={} equal_to_snapshot={}", r.end, r.message, got.len(), got == exp);
          }
        }
        sv::model::exec::CompileOutcome::Rejected(m) => println!("rejected: {}", &m[..m.len().min(2000)]),
        sv::model::exec::CompileOutcome::Panicked(e) => println!("panicked: {:?}", e),
      }
    }
    "progen" => {
      sv::engine::install_panic_hook();
      // dev: generate N programs, report checker acceptance and reference runs; print rejected ones
      let n: u64 = args.get(1).and_then(|s| s.parse().ok()).unwrap_or(20);
      let show: u64 = args.get(2).and_then(|s| s.parse().ok()).unwrap_or(1);
      let mut x: u64 = 0x9e3779b97f4a7c15;
      let (mut ok, mut rej, mut shown) = (0, 0, 0);
      let mut ends: std::collections::BTreeMap<String, u64> = Default::default();
      for _ in 0..n {
        let data: Vec<u32> = (0..1500).map(|_| { x ^= x << 13; x ^= x >> 7; x ^= x << 17; (x >> 16) as u32 }).collect();
        let mut tape = sv::engine::Tape::new(data);
        let (ir, _feats) = sv::generators::progen::gen_program(&mut tape, Default::default());
        let mods = ir.render();
        let tc = std::time::Instant::now();
        let compiled = sv::model::exec::compile(&mods, &ir.entry);
        let compile_ms = tc.elapsed().as_millis();
        if std::env::var("VERIF_TRACE").is_ok() {
          let tr = std::time::Instant::now();
          let _ = sv::props::run_common::reference_run(&mods, &ir.entry, 3_000_000);
          let ref_ms = tr.elapsed().as_millis();
          let te = std::time::Instant::now();
          let mut wasm_ms = 0; let mut ts_ms = 0; let mut val_ms = 0;
          if let sv::model::exec::CompileOutcome::Ok(c) = &compiled {
            let tv = std::time::Instant::now();
            let _ = sv::model::exec::validate_wasm(&c.wasm);
            val_ms = tv.elapsed().as_millis();
            sv::props::run_common::with_node(|n| {
              let t1 = std::time::Instant::now();
              let _ = n.run_wasm(&c.wasm, &c.loader, &c.main, std::time::Duration::from_secs(20));
              wasm_ms = t1.elapsed().as_millis();
              let t2 = std::time::Instant::now();
              let _ = n.run_ts(&c.ts_code, std::time::Duration::from_secs(20));
              ts_ms = t2.elapsed().as_millis();
            });
          }
          println!("compile {compile_ms} ms, reference {ref_ms} ms, validate {val_ms} ms, wasm {wasm_ms} ms, ts {ts_ms} ms, total-exec {} ms", te.elapsed().as_millis());
        }
        match compiled {
          sv::model::exec::CompileOutcome::Ok(_) => {
            ok += 1;
            let prog = sv::model::front::load_program(&mods).unwrap();
            let entry = prog.user.iter().copied().find(|m| m.pretty_print(&prog.heap) == ir.entry.join(".")).unwrap();
            let run = sv::model::interp::run_program(&prog.heap, &prog.modules, entry, 3_000_000);
            let key = match &run.end { sv::model::interp::End::Excluded(r) => format!("excluded:{r}"), sv::model::interp::End::Stuck(m) => format!("STUCK:{m}"), sv::model::interp::End::Panic(m) => format!("panic:{m}"), e => format!("{e:?}") };
            if key.starts_with("STUCK") && shown < show {
              shown += 1;
              for (n, t) in &mods { println!("--- {}\n{}", n.join("."), t); }
              println!("==> {key}");
            }
            *ends.entry(key).or_default() += 1;
          }
          sv::model::exec::CompileOutcome::Rejected(m) => {
            rej += 1;
            if shown < show {
              shown += 1;
              for (n, t) in &mods { println!("--- {}\n{}", n.join("."), t); }
              println!("REJECTED:\n{}", &m[..m.len().min(1500)]);
            }
          }
          sv::model::exec::CompileOutcome::Panicked(e) => { println!("PANIC {:?}", e); for (n, t) in &mods { println!("--- {}\n{}", n.join("."), t); } }
        }
      }
      println!("accepted {ok} rejected {rej}; reference ends: {:?}", ends);
    }
    "emit" => {
      // dev: emit <file.sam> : print the TypeScript emitted for a single-module program M0
      let text = std::fs::read_to_string(&args[1]).unwrap();
      match sv::model::exec::compile(&[(vec!["M0".to_string()], text)], &["M0".to_string()]) {
        sv::model::exec::CompileOutcome::Ok(c) => {
          let ts = c.ts_code;
          let start = ts.find("function _M0").unwrap_or(0);
          println!("{}", &ts[start..]);
        }
        sv::model::exec::CompileOutcome::Rejected(m) => println!("rejected: {m}"),
        sv::model::exec::CompileOutcome::Panicked(e) => println!("panicked: {:?}", e),
      }
    }
    "c18text" => {
      // dev: c18text <artifact.json> : print the driver program of a C18 artifact
      let art: serde_json::Value = serde_json::from_str(&std::fs::read_to_string(&args[1]).unwrap()).unwrap();
      let art = art.get("artifact").cloned().unwrap_or(art);
      let text = sv::props::c18::build(art["ops"].as_array().unwrap()).0;
      println!("{text}");
      if let sv::model::exec::CompileOutcome::Rejected(m) = sv::model::exec::compile(&[(vec!["Driver".to_string()], text)], &["Driver".to_string()]) {
        println!("REJECTED:\n{}", &m[..m.len().min(3000)]);
      }
    }
    "planart" => {
      // dev: planart <artifact.json> <pass,pass,...|unopt|all> : compile with a plan (VERIF_DUMP_MIR=1 prints the MIR), validate, run
      let art: serde_json::Value = serde_json::from_str(&std::fs::read_to_string(&args[1]).unwrap()).unwrap();
      let art = art.get("artifact").cloned().unwrap_or(art);
      let (mods, entry) = sv::props::run_common::mods_of(&art);
      let plan = match args[2].as_str() {
        "unopt" => sv::model::exec::Plan::Unoptimized,
        "all" => sv::model::exec::Plan::Config([true; 5]),
        "none" => sv::model::exec::Plan::Config([false; 5]),
        p => sv::model::exec::Plan::Passes(p.split(',').map(|x| x.to_string()).collect()),
      };
      match sv::model::exec::compile_with_plan(&mods, &entry, &plan) {
        sv::model::exec::CompileOutcome::Ok(c) => {
          println!("validation: {:?}", sv::model::exec::validate_wasm(&c.wasm));
          if std::env::var("VERIF_DUMP_WAT").is_ok() {
            println!("{}", c.wat);
          }
          let mut node = sv::engine::node::Node::spawn().expect("node");
          let w = node.run_wasm(&c.wasm, &c.loader, &c.main, std::time::Duration::from_secs(10));
          println!("wasm: end={} msg={:?} lines={:?}", w.end, w.message, w.lines);
        }
        sv::model::exec::CompileOutcome::Rejected(m) => println!("rejected: {}", &m[..m.len().min(1500)]),
        sv::model::exec::CompileOutcome::Panicked(e) => println!("panicked: {:?}", e),
      }
    }
    "emitart" => {
      // dev: emitart <artifact.json> : print emitted TypeScript of an artifact
      let art: serde_json::Value = serde_json::from_str(&std::fs::read_to_string(&args[1]).unwrap()).unwrap();
      let art = art.get("artifact").cloned().unwrap_or(art);
      let (mods, entry) = sv::props::run_common::mods_of(&art);
      if let sv::model::exec::CompileOutcome::Ok(c) = sv::model::exec::compile(&mods, &entry) {
        println!("{}", c.ts_code);
      }
    }
    "runart" => {
      // dev: runart <artifact.json> : compile and run both backends with timing
      let art: serde_json::Value = serde_json::from_str(&std::fs::read_to_string(&args[1]).unwrap()).unwrap();
      let art = art.get("artifact").cloned().unwrap_or(art);
      let (mods, entry) = sv::props::run_common::mods_of(&art);
      let r = sv::props::run_common::reference_run(&mods, &entry, 300_000);
      println!("reference: {:?} steps {:?}", r.as_ref().map(|r| sv::props::run_common::end_str(&r.end)), r.as_ref().map(|r| r.steps));
      if let sv::model::exec::CompileOutcome::Ok(c) = sv::model::exec::compile(&mods, &entry) {
        sv::props::run_common::with_node(|n| {
          let t1 = std::time::Instant::now();
          let w = n.run_wasm(&c.wasm, &c.loader, &c.main, std::time::Duration::from_secs(10));
          println!("wasm: {} {:?} {} lines in {:?}", w.end, w.message, w.lines.len(), t1.elapsed());
          let t2 = std::time::Instant::now();
          let t = n.run_ts(&c.ts_code, std::time::Duration::from_secs(10));
          println!("ts: {} {:?} {} lines in {:?}", t.end, t.message, t.lines.len(), t2.elapsed());
        });
      }
    }
    "compile-child" => {
      sv::engine::install_panic_hook();
      let art: serde_json::Value = serde_json::from_str(&std::fs::read_to_string(&args[1]).unwrap()).unwrap();
      println!("{}", sv::props::c12::compile_child(&art));
    }
    "list" => {
      for p in sv::props::all() {
        println!("{}", p.id());
      }
    }
    id => {
      let Some(prop) = sv::props::by_id(id) else { usage() };
      let mut tier = Tier::parse(&std::env::var("VERIF_TIER").unwrap_or_default());
      let mut replay: Option<String> = None;
      let mut i = 1;
      while i < args.len() {
        match args[i].as_str() {
          "--tier" => {
            tier = Tier::parse(&args[i + 1]);
            i += 2;
          }
          "--replay" => {
            replay = Some(args[i + 1].clone());
            i += 2;
          }
          _ => usage(),
        }
      }
      let seed: u64 = std::env::var("VERIF_SEED").ok().and_then(|s| s.trim().parse::<i64>().ok()).map(|v| v as u64).unwrap_or(20260925);
      let code = match replay {
        Some(f) => parent::run_replay(prop, tier, &f),
        None => parent::run_check(prop, tier, seed),
      };
      std::process::exit(code);
    }
  }
}
