//! Compile a multi-module program with the real pipeline and execute both emitted artefacts.

use crate::engine::guard;
use crate::engine::node::{Exec, Node};
use samlang_heap::Heap;
use std::collections::HashMap;
use std::time::Duration;

pub struct Compiled {
  pub ts_code: String,
  pub wasm: Vec<u8>,
  pub loader: String,
  pub main: String,
  pub wat: String,
}

pub enum CompileOutcome {
  Ok(Compiled),
  /// the front end rejected the program: rendered diagnostics
  Rejected(String),
  Panicked((String, String)),
}

/// `mods`: user modules; the standard library (incl. std/*.sam files not built into the parser) is added.
pub fn compile(mods: &[(Vec<String>, String)], entry: &[String]) -> CompileOutcome {
  compile_in_order(mods, entry, 0)
}

/// `order` permutes the order in which the modules (std and user) are registered with the heap:
/// rotation by order/2, reversed when odd (0 = std first, then the user modules as given)
pub fn compile_in_order(mods: &[(Vec<String>, String)], entry: &[String], order: usize) -> CompileOutcome {
  let mut heap = Heap::new();
  let mut handles = HashMap::new();
  let user_texts: Vec<&str> = mods.iter().map(|(_, t)| t.as_str()).collect();
  let mut all: Vec<(Vec<String>, String)> = crate::model::front::needed_std(&mut heap, &user_texts);
  all.extend(mods.iter().cloned());
  if !all.is_empty() {
    let k = (order / 2) % all.len();
    all.rotate_left(k);
    if order % 2 == 1 {
      all.reverse();
    }
  }
  for (name, text) in all {
    let mr = heap.alloc_module_reference_from_string_vec(name);
    handles.insert(mr, text);
  }
  let entry_mr = heap.alloc_module_reference_from_string_vec(entry.to_vec());
  let entry_name = entry.join(".");
  match guard(|| samlang_compiler::compile_sources(&mut heap, handles, vec![entry_mr], false)) {
    Err(e) => CompileOutcome::Panicked(e),
    Ok(Err(msg)) => CompileOutcome::Rejected(msg),
    Ok(Ok(res)) => {
      let ts_code = res.text_code_results.get(&format!("{entry_name}.ts")).cloned().unwrap_or_default();
      let wasm_js = res.text_code_results.get(&format!("{entry_name}.wasm.js")).cloned().unwrap_or_default();
      let loader = res.text_code_results.get("__samlang_loader__.js").cloned().unwrap_or_default();
      let wat = res.text_code_results.get("__all__.wat").cloned().unwrap_or_default();
      let main = wasm_js.rsplit("(binary).").next().unwrap_or("").split('(').next().unwrap_or("").to_string();
      CompileOutcome::Ok(Compiled { ts_code, wasm: res.wasm_file, loader, main, wat })
    }
  }
}

pub fn validate_wasm(bytes: &[u8]) -> Result<(), String> {
  let mut v = wasmparser::Validator::new_with_features(wasmparser::WasmFeatures::all());
  v.validate_all(bytes).map(|_| ()).map_err(|e| e.to_string())
}

pub fn run_both(node: &mut Node, c: &Compiled, timeout: Duration) -> (Exec, Exec) {
  let w = node.run_wasm(&c.wasm, &c.loader, &c.main, timeout);
  let t = node.run_ts(&c.ts_code, timeout);
  (w, t)
}
