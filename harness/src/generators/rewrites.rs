//! Meaning-preserving rewrites on the G1 IR (C13).

use super::faults::walk_expr_mut;
use super::ir::*;
use crate::engine::Tape;

pub const REWRITES: &[&str] = &["alpha-rename", "permute-classes", "permute-members", "wrap-paren", "wrap-block", "drop-let-annotation", "drop-lambda-annotation", "drop-type-arguments", "split-module", "reuse-names", "annotate-lambda"];

fn rename_pat(p: &mut Pat, f: &dyn Fn(&str) -> String) {
  match p {
    Pat::Var(n, _) => *n = f(n),
    Pat::Tuple(ps) | Pat::Variant(_, ps) | Pat::Or(ps) => ps.iter_mut().for_each(|x| rename_pat(x, f)),
    Pat::Struct(fs) => fs.iter_mut().for_each(|(_, x)| rename_pat(x, f)),
    Pat::Wild => {}
  }
}

fn rename_expr(e: &mut Expr, f: &dyn Fn(&str) -> String) {
  walk_expr_mut(e, &mut |x| match &mut x.kind {
    EK::Var(n) => {
      // raw literals injected by fault injection are not names
      if n.chars().next().map(|c| c.is_ascii_lowercase()).unwrap_or(false) {
        *n = f(n)
      }
    }
    EK::IfLet { pat, .. } => rename_pat(pat, f),
    EK::Match { arms, .. } => arms.iter_mut().for_each(|(p, _)| rename_pat(p, f)),
    EK::Lambda { params, .. } => params.iter_mut().for_each(|(n, _)| *n = f(n)),
    EK::Block { stmts, .. } => stmts.iter_mut().for_each(|s| {
      if let Stmt::Let { pat, .. } = s {
        rename_pat(pat, f)
      }
    }),
    _ => {}
  });
}

fn retarget_ty(t: &mut Ty, class: &str, to: &[String]) {
  match t {
    Ty::Class(m, n, a) => {
      if n == class {
        *m = to.to_vec();
      }
      a.iter_mut().for_each(|x| retarget_ty(x, class, to));
    }
    Ty::Fn(p, r) => {
      p.iter_mut().for_each(|x| retarget_ty(x, class, to));
      retarget_ty(r, class, to);
    }
    Ty::Vec(x) => retarget_ty(x, class, to),
    Ty::Tuple(ts) => ts.iter_mut().for_each(|x| retarget_ty(x, class, to)),
    _ => {}
  }
}

fn retarget_pat(p: &mut Pat, class: &str, to: &[String]) {
  match p {
    Pat::Var(_, t) => retarget_ty(t, class, to),
    Pat::Tuple(ps) | Pat::Variant(_, ps) | Pat::Or(ps) => ps.iter_mut().for_each(|x| retarget_pat(x, class, to)),
    Pat::Struct(fs) => fs.iter_mut().for_each(|(_, x)| retarget_pat(x, class, to)),
    Pat::Wild => {}
  }
}

fn retarget_expr(e: &mut Expr, class: &str, to: &[String]) {
  walk_expr_mut(e, &mut |x| {
    retarget_ty(&mut x.ty, class, to);
    match &mut x.kind {
      EK::StaticCall { module, class: c, targs, .. } => {
        if c == class {
          *module = to.to_vec();
        }
        targs.iter_mut().for_each(|t| retarget_ty(t, class, to));
      }
      EK::StaticRef { module, class: c, .. } => {
        if c == class {
          *module = to.to_vec();
        }
      }
      EK::MethodCall { targs, .. } => targs.iter_mut().for_each(|t| retarget_ty(t, class, to)),
      EK::IfLet { pat, .. } => retarget_pat(pat, class, to),
      EK::Match { arms, .. } => arms.iter_mut().for_each(|(p, _)| retarget_pat(p, class, to)),
      EK::Lambda { params, .. } => params.iter_mut().for_each(|(_, t)| retarget_ty(t, class, to)),
      EK::Block { stmts, .. } => stmts.iter_mut().for_each(|s| {
        if let Stmt::Let { pat, annot, .. } = s {
          retarget_pat(pat, class, to);
          if let Some(a) = annot {
            retarget_ty(a, class, to);
          }
        }
      }),
      _ => {}
    }
  });
}

fn retarget_program(p: &mut ProgramIr, class: &str, to: &[String]) {
  for m in p.modules.iter_mut() {
    for c in m.classes.iter_mut() {
      for tp in c.tparams.iter_mut() {
        if let Some(b) = &mut tp.bound {
          retarget_ty(b, class, to);
        }
      }
      match &mut c.typedef {
        TypeDef::Struct(fs) => fs.iter_mut().for_each(|(_, t, _)| retarget_ty(t, class, to)),
        TypeDef::Enum(vs) => vs.iter_mut().for_each(|(_, ts)| ts.iter_mut().for_each(|t| retarget_ty(t, class, to))),
        TypeDef::None => {}
      }
      c.implements.iter_mut().for_each(|t| retarget_ty(t, class, to));
      for mem in c.members.iter_mut() {
        for tp in mem.tparams.iter_mut() {
          if let Some(b) = &mut tp.bound {
            retarget_ty(b, class, to);
          }
        }
        mem.params.iter_mut().for_each(|(_, t)| retarget_ty(t, class, to));
        retarget_ty(&mut mem.ret, class, to);
        if let Some(b) = &mut mem.body {
          retarget_expr(b, class, to);
        }
      }
    }
  }
}

fn member_bodies(p: &mut ProgramIr) -> Vec<&mut Expr> {
  let mut v = vec![];
  for m in p.modules.iter_mut() {
    for c in m.classes.iter_mut() {
      for mem in c.members.iter_mut() {
        if let Some(b) = mem.body.as_mut() {
          v.push(b);
        }
      }
    }
  }
  v
}

/// binds the variables of a pattern at successive levels (`zz<level>`); the alternatives of an
/// or-pattern bind the same names
fn level_bind(p: &mut Pat, env: &mut Vec<(String, String)>) {
  match p {
    Pat::Var(n, _) => {
      if let Some((_, new)) = env.iter().rev().find(|(o, _)| o == n).filter(|_| false) {
        *n = new.clone();
      } else {
        let new = format!("zz{}", env.len());
        env.push((n.clone(), new.clone()));
        *n = new;
      }
    }
    Pat::Tuple(ps) | Pat::Variant(_, ps) => ps.iter_mut().for_each(|x| level_bind(x, env)),
    Pat::Struct(fs) => fs.iter_mut().for_each(|(_, x)| level_bind(x, env)),
    Pat::Or(ps) => {
      let mark = env.len();
      if let Some((first, rest)) = ps.split_first_mut() {
        level_bind(first, env);
        let bound: Vec<(String, String)> = env[mark..].to_vec();
        for alt in rest {
          rename_pat(alt, &|n: &str| bound.iter().find(|(o, _)| o == n).map(|(_, x)| x.clone()).unwrap_or_else(|| n.to_string()));
        }
      }
    }
    Pat::Wild => {}
  }
}

/// de-Bruijn-level renaming: every binder is named after the number of local binders in scope, so
/// that disjoint (sibling) scopes reuse the same names while nested scopes never shadow
fn level_rename(e: &mut Expr, env: &mut Vec<(String, String)>) {
  match &mut e.kind {
    EK::Var(n) => {
      if let Some((_, new)) = env.iter().rev().find(|(o, _)| o == n) {
        *n = new.clone();
      }
    }
    EK::Lambda { params, body, .. } => {
      let mark = env.len();
      for (n, _) in params.iter_mut() {
        let new = format!("zz{}", env.len());
        env.push((n.clone(), new.clone()));
        *n = new;
      }
      level_rename(body, env);
      env.truncate(mark);
    }
    EK::Block { stmts, last } => {
      let mark = env.len();
      for s in stmts.iter_mut() {
        match s {
          Stmt::Let { pat, init, .. } => {
            level_rename(init, env);
            level_bind(pat, env);
          }
          Stmt::Expr(x) => level_rename(x, env),
        }
      }
      if let Some(x) = last {
        level_rename(x, env);
      }
      env.truncate(mark);
    }
    EK::IfLet { pat, scrut, then, els } => {
      level_rename(scrut, env);
      let mark = env.len();
      level_bind(pat, env);
      level_rename(then, env);
      env.truncate(mark);
      level_rename(els, env);
    }
    EK::Match { scrut, arms } => {
      level_rename(scrut, env);
      for (pat, body) in arms.iter_mut() {
        let mark = env.len();
        level_bind(pat, env);
        level_rename(body, env);
        env.truncate(mark);
      }
    }
    EK::Tuple(es) => es.iter_mut().for_each(|x| level_rename(x, env)),
    EK::StaticCall { args, .. } => args.iter_mut().for_each(|x| level_rename(x, env)),
    EK::MethodCall { recv, args, .. } => {
      level_rename(recv, env);
      args.iter_mut().for_each(|x| level_rename(x, env));
    }
    EK::MethodRef { recv, .. } => level_rename(recv, env),
    EK::Field { obj, .. } => level_rename(obj, env),
    EK::CallValue { callee, args } => {
      level_rename(callee, env);
      args.iter_mut().for_each(|x| level_rename(x, env));
    }
    EK::Unary(_, x) | EK::Paren(x) => level_rename(x, env),
    EK::Binary(_, a, b) => {
      level_rename(a, env);
      level_rename(b, env);
    }
    EK::If { cond, then, els } => {
      level_rename(cond, env);
      level_rename(then, env);
      level_rename(els, env);
    }
    _ => {}
  }
}

/// Applies one rewrite; returns a description of what changed, or None when not applicable.
pub fn apply(p: &mut ProgramIr, t: &mut Tape, kind: &str) -> Option<String> {
  match kind {
    "alpha-rename" => {
      // every local name (parameters, let / pattern / lambda binders) gets a fresh name, consistently
      let f = |n: &str| format!("{n}Renamed");
      for m in p.modules.iter_mut() {
        for c in m.classes.iter_mut() {
          for mem in c.members.iter_mut() {
            if mem.body.is_none() {
              continue;
            }
            mem.params.iter_mut().for_each(|(n, _)| *n = f(n));
            rename_expr(mem.body.as_mut().unwrap(), &f);
          }
        }
      }
      Some("all locals".into())
    }
    "permute-classes" => {
      let mi = t.choose(p.modules.len());
      let m = &mut p.modules[mi];
      if m.classes.len() < 2 {
        return None;
      }
      m.classes.reverse();
      let k = t.choose(m.classes.len());
      m.classes.rotate_left(k);
      Some(format!("module {}", m.path.join(".")))
    }
    "permute-members" => {
      let mut done = vec![];
      for m in p.modules.iter_mut() {
        for c in m.classes.iter_mut() {
          if c.members.len() >= 2 {
            c.members.reverse();
            done.push(c.name.clone());
          }
        }
      }
      if done.is_empty() { None } else { Some(done.join(",")) }
    }
    "wrap-paren" | "wrap-block" => {
      let mut bodies = member_bodies(p);
      if bodies.is_empty() {
        return None;
      }
      let bi = t.choose(bodies.len());
      let body = &mut bodies[bi];
      let mut count = 0;
      let mut probe = (**body).clone();
      walk_expr_mut(&mut probe, &mut |_| count += 1);
      let target = t.choose(count);
      let mut seen = 0;
      let mut what = None;
      let block = kind == "wrap-block";
      walk_expr_mut(body, &mut |e| {
        if seen == target && what.is_none() {
          let inner = e.clone();
          what = Some(format!("{:?}", std::mem::discriminant(&inner.kind)));
          e.kind = if block { EK::Block { stmts: vec![], last: Some(Box::new(inner)) } } else { EK::Paren(Box::new(inner)) };
        }
        seen += 1;
      });
      what
    }
    "drop-let-annotation" => {
      let mut n = 0;
      let pick = t.raw();
      for b in member_bodies(p) {
        walk_expr_mut(b, &mut |e| {
          if let EK::Block { stmts, .. } = &mut e.kind {
            for s in stmts.iter_mut() {
              if let Stmt::Let { annot, init, .. } = s
                && annot.is_some()
                // keep the hint where the initialiser needs it (lambda without parameter annotations)
                && !matches!(init.kind, EK::Lambda { annotated: false, .. })
                && (pick >> (n % 31)) & 1 == 1
              {
                *annot = None;
                n += 1;
              }
            }
          }
        });
      }
      if n == 0 { None } else { Some(format!("{n} let annotations")) }
    }
    "drop-lambda-annotation" => {
      // only where spec 5.7 guarantees a hint: a lambda that is the initialiser of an annotated let
      let mut n = 0;
      for b in member_bodies(p) {
        walk_expr_mut(b, &mut |e| {
          if let EK::Block { stmts, .. } = &mut e.kind {
            for s in stmts.iter_mut() {
              if let Stmt::Let { annot: Some(_), init, .. } = s
                && let EK::Lambda { annotated, params, .. } = &mut init.kind
                && *annotated
                && !params.is_empty()
              {
                *annotated = false;
                n += 1;
              }
            }
          }
        });
      }
      if n == 0 { None } else { Some(format!("{n} lambdas")) }
    }
    "drop-type-arguments" => {
      // the reverse of "making inferred type arguments explicit": only calls whose arguments mention
      // every type argument can be inferred; others are counted as needs-annotation by the check
      let mut n = 0;
      let pick = t.raw();
      for b in member_bodies(p) {
        walk_expr_mut(b, &mut |e| {
          if let EK::StaticCall { targs, args, class, .. } = &mut e.kind
            && !targs.is_empty()
            && !args.is_empty()
            && class != "Process"
            && (pick >> (n % 31)) & 1 == 1
          {
            targs.clear();
            n += 1;
          }
        });
      }
      if n == 0 { None } else { Some(format!("{n} calls")) }
    }
    "reuse-names" => {
      // the reverse of renaming to fresh names: sibling scopes share names (see level_rename)
      let mut n = 0;
      for b in member_bodies(p) {
        let mut env = vec![];
        level_rename(b, &mut env);
        n += 1;
      }
      if n == 0 { None } else { Some("all local binders named by scope level".into()) }
    }
    "annotate-lambda" => {
      // parameter types the checker inferred from the context become explicit annotations
      let mut n = 0;
      let pick = t.raw() | 1;
      for b in member_bodies(p) {
        walk_expr_mut(b, &mut |e| {
          if let EK::Lambda { annotated, params, .. } = &mut e.kind
            && !*annotated
            && !params.is_empty()
          {
            if (pick >> (n % 31)) & 1 == 1 {
              *annotated = true;
            }
            n += 1;
          }
        });
      }
      if n == 0 { None } else { Some(format!("up to {n} lambdas")) }
    }
    "drop-type-arguments-deep" => {
      // pre-step for annotate-lambda (not a judged rewrite): also calls without arguments, whose
      // type arguments can only come from the expected type
      let mut n = 0;
      let pick = t.raw();
      for b in member_bodies(p) {
        walk_expr_mut(b, &mut |e| {
          if let EK::StaticCall { targs, class, .. } = &mut e.kind
            && !targs.is_empty()
            && class != "Process"
          {
            if (pick >> (n % 31)) & 1 == 1 {
              targs.clear();
            }
            n += 1;
          }
        });
      }
      if n == 0 { None } else { Some(format!("{n} calls")) }
    }
    "split-module" => {
      // move one class (no private members involved: G1 classes are public) into a new module
      // private classes are visible inside their module only: modules that have one are left alone
      let cands: Vec<(usize, usize)> = p.modules.iter().enumerate().filter(|(_, m)| !m.classes.iter().any(|c| c.private)).flat_map(|(mi, m)| m.classes.iter().enumerate().filter(|(_, c)| c.name != "Main" && !c.private).map(move |(ci, _)| (mi, ci))).collect();
      if cands.is_empty() {
        return None;
      }
      let (mi, ci) = cands[t.choose(cands.len())];
      if p.modules[mi].classes.len() < 2 {
        return None;
      }
      let class = p.modules[mi].classes.remove(ci);
      let name = class.name.clone();
      let to = vec!["split".to_string(), format!("S{name}")];
      p.modules.push(ModuleIr { path: to.clone(), classes: vec![class] });
      retarget_program(p, &name, &to);
      Some(name)
    }
    _ => None,
  }
}
