//! Single-fault injection on the G1 typed IR (C06): every mutation is guaranteed ill-typed /
//! ill-formed by the specification's rules, because the IR knows the type of every expression
//! and all generic calls carry explicit type arguments.

use super::ir::*;
use crate::engine::Tape;

pub struct Fault {
  pub kind: &'static str,
  pub site: String,
  /// module path in which the error must be reported
  pub module: Vec<String>,
}

pub fn walk_expr_mut(e: &mut Expr, f: &mut dyn FnMut(&mut Expr)) {
  f(e);
  match &mut e.kind {
    EK::Tuple(es) => es.iter_mut().for_each(|x| walk_expr_mut(x, f)),
    EK::StaticCall { args, .. } => args.iter_mut().for_each(|x| walk_expr_mut(x, f)),
    EK::MethodCall { recv, args, .. } => {
      walk_expr_mut(recv, f);
      args.iter_mut().for_each(|x| walk_expr_mut(x, f));
    }
    EK::MethodRef { recv, .. } => walk_expr_mut(recv, f),
    EK::Field { obj, .. } => walk_expr_mut(obj, f),
    EK::CallValue { callee, args } => {
      walk_expr_mut(callee, f);
      args.iter_mut().for_each(|x| walk_expr_mut(x, f));
    }
    EK::Unary(_, x) | EK::Paren(x) => walk_expr_mut(x, f),
    EK::Binary(_, a, b) => {
      walk_expr_mut(a, f);
      walk_expr_mut(b, f);
    }
    EK::If { cond, then, els } => {
      walk_expr_mut(cond, f);
      walk_expr_mut(then, f);
      walk_expr_mut(els, f);
    }
    EK::IfLet { scrut, then, els, .. } => {
      walk_expr_mut(scrut, f);
      walk_expr_mut(then, f);
      walk_expr_mut(els, f);
    }
    EK::Match { scrut, arms } => {
      walk_expr_mut(scrut, f);
      arms.iter_mut().for_each(|(_, x)| walk_expr_mut(x, f));
    }
    EK::Lambda { body, .. } => walk_expr_mut(body, f),
    EK::Block { stmts, last } => {
      for s in stmts.iter_mut() {
        match s {
          Stmt::Let { init, .. } => walk_expr_mut(init, f),
          Stmt::Expr(x) => walk_expr_mut(x, f),
        }
      }
      if let Some(x) = last {
        walk_expr_mut(x, f);
      }
    }
    _ => {}
  }
}

/// a closed expression whose type differs from `ty` (and is concrete)
fn wrong_typed(ty: &Ty, t: &mut Tape) -> Expr {
  let cands: Vec<Expr> = vec![
    Expr::new(Ty::Int, EK::Int(7)),
    Expr::new(Ty::Bool, EK::Bool(true)),
    Expr::new(Ty::Str, EK::Str("wrong".into())),
    Expr::new(Ty::Unit, EK::Block { stmts: vec![], last: None }),
    Expr::new(Ty::Tuple(vec![Ty::Int, Ty::Int]), EK::Tuple(vec![Expr::new(Ty::Int, EK::Int(1)), Expr::new(Ty::Int, EK::Int(2))])),
    Expr::new(Ty::Fn(vec![Ty::Int], Box::new(Ty::Int)), EK::Lambda { params: vec![("zq".into(), Ty::Int)], annotated: true, body: Box::new(Expr::new(Ty::Int, EK::Var("zq".into()))) }),
  ];
  let ok: Vec<Expr> = cands.into_iter().filter(|c| &c.ty != ty).collect();
  ok[t.choose(ok.len())].clone()
}

fn concrete(t: &Ty) -> bool {
  !super::progen::contains_tparam(t)
}

const FAULTS: &[&str] = &[
  "wrong-type:binary-operand",
  "wrong-type:if-condition",
  "wrong-type:call-argument",
  "wrong-type:return-expression",
  "wrong-type:annotated-let",
  "wrong-type:unary-operand",
  "arity:argument-added",
  "arity:argument-removed",
  "arity:type-argument",
  "unresolved:variable",
  "unresolved:class",
  "unresolved:member",
  "unresolved:module",
  "visibility:private-member",
  "visibility:private-class",
  "interface:member-missing",
  "interface:member-mistyped",
  "literal:out-of-range",
  "match:arm-deleted",
  "visibility:private-field",
  "bound:violated",
  "wrong-type:hinted-lambda-body",
  "visibility:private-class-inferred",
  "interface:several-members-missing",
  "interface:second-instantiation-unsatisfied",
  "wrong-type:same-named-class-of-another-module",
  "match:struct-pattern-case-missing",
  "bound:violated-by-unbounded-type-parameter",
];

pub fn fault_kinds() -> &'static [&'static str] {
  FAULTS
}

/// Applies one fault. Returns None when the program offers no site for the chosen kind.
pub fn inject(p: &mut ProgramIr, t: &mut Tape, kind_idx: usize) -> Option<Fault> {
  let kind = FAULTS[kind_idx % FAULTS.len()];
  // program-level faults first
  match kind {
    "unresolved:module" => {
      let mi = t.choose(p.modules.len());
      let m = &mut p.modules[mi];
      // reference a class from a module that does not exist
      let c = m.classes.iter_mut().find(|c| !c.is_interface && c.members.iter().any(|m| m.body.is_some()))?;
      let mem = c.members.iter_mut().find(|m| m.body.is_some())?;
      let body = mem.body.take().unwrap();
      let ghost = Expr::new(Ty::Unit, EK::StaticCall { module: vec!["no".into(), "such".into(), "Module".into()], class: "Ghost".into(), member: "f".into(), targs: vec![], args: vec![] });
      mem.body = Some(Expr::new(body.ty.clone(), EK::Block { stmts: vec![Stmt::Expr(ghost)], last: Some(Box::new(body)) }));
      return Some(Fault { kind, site: format!("{}.{}", c.name, mem.name), module: m.path.clone() });
    }
    "visibility:private-member" | "visibility:private-class" => {
      // find a cross-module static call / constructor use
      let mut found: Option<(Vec<String>, Vec<String>, String, String)> = None; // (user module, def module, class, member)
      for m in &p.modules {
        for c in &m.classes {
          for mem in &c.members {
            if let Some(b) = &mem.body {
              let mut b2 = b.clone();
              walk_expr_mut(&mut b2, &mut |e| {
                if let EK::StaticCall { module, class, member, .. } = &e.kind
                  && !module.is_empty()
                  && module != &m.path
                  && module[0] != "std"
                  && found.is_none()
                {
                  found = Some((m.path.clone(), module.clone(), class.clone(), member.clone()));
                }
              });
            }
          }
        }
      }
      let (user, def, class, member) = found?;
      let dm = p.modules.iter_mut().find(|m| m.path == def)?;
      let dc = dm.classes.iter_mut().find(|c| c.name == class)?;
      if kind == "visibility:private-class" {
        dc.private = true;
        return Some(Fault { kind, site: format!("{}.{class}", def.join(".")), module: user });
      }
      let mem = dc.members.iter_mut().find(|m| m.name == member && !m.is_method)?;
      mem.is_public = false;
      return Some(Fault { kind, site: format!("{class}.{member}"), module: user });
    }
    "visibility:private-class-inferred" => {
      // a value of another module's private class obtained only through inference (never named,
      // never imported) and then used: method call, field read, destructuring, match
      if p.modules.len() < 2 {
        return None;
      }
      let ui = t.choose(p.modules.len());
      let mut di = t.choose(p.modules.len() - 1);
      if di >= ui {
        di += 1;
      }
      let variant = t.choose(5);
      // the user module needs a member with a body (checked before anything is changed)
      if !p.modules[ui].classes.iter().any(|c| !c.is_interface && c.members.iter().any(|m| m.body.is_some())) {
        return None;
      }
      let def_path = p.modules[di].path.clone();
      let tag = p.modules[di].classes.len();
      let hidden = format!("Hidden{tag}");
      let gate = format!("Gate{tag}");
      let hty = Ty::Class(def_path.clone(), hidden.clone(), vec![]);
      let int = |n: i32| Expr::new(Ty::Int, EK::Int(n));
      let is_enum = variant == 3;
      let reveal = Member {
        name: "reveal".into(),
        is_method: true,
        is_public: true,
        tparams: vec![],
        params: vec![],
        ret: Ty::Int,
        body: Some(int(7)),
      };
      let hidden_class = Class {
        name: hidden.clone(),
        is_interface: false,
        private: true,
        tparams: vec![],
        typedef: if is_enum { TypeDef::Enum(vec![("HA".to_string() + &tag.to_string(), vec![Ty::Int]), ("HB".to_string() + &tag.to_string(), vec![])]) } else { TypeDef::Struct(vec![("v".into(), Ty::Int, true)]) },
        implements: vec![],
        members: vec![reveal],
      };
      let ctor = if is_enum { format!("HA{tag}") } else { "init".to_string() };
      let open = Member {
        name: "open".into(),
        is_method: false,
        is_public: true,
        tparams: vec![],
        params: vec![],
        ret: hty.clone(),
        body: Some(Expr::new(hty.clone(), EK::StaticCall { module: def_path.clone(), class: hidden.clone(), member: ctor, targs: vec![], args: vec![int(1)] })),
      };
      let gate_class = Class { name: gate.clone(), is_interface: false, private: false, tparams: vec![], typedef: TypeDef::None, implements: vec![], members: vec![open] };
      p.modules[di].classes.push(hidden_class);
      p.modules[di].classes.push(gate_class);
      let opened = || Expr::new(hty.clone(), EK::StaticCall { module: def_path.clone(), class: gate.clone(), member: "open".into(), targs: vec![], args: vec![] });
      let wild = |e: Expr| Stmt::Let { pat: Pat::Wild, annot: None, init: e };
      let stmts: Vec<Stmt> = match variant {
        0 => vec![wild(Expr::new(Ty::Int, EK::MethodCall { recv: Box::new(opened()), method: "reveal".into(), targs: vec![], args: vec![] }))],
        1 => vec![wild(Expr::new(Ty::Int, EK::Field { obj: Box::new(opened()), field: "v".into() }))],
        2 => vec![Stmt::Let { pat: Pat::Struct(vec![("v".into(), Pat::Var(format!("hq{tag}"), Ty::Int))]), annot: None, init: opened() }],
        3 => vec![wild(Expr::new(
          Ty::Int,
          EK::Match { scrut: Box::new(opened()), arms: vec![(Pat::Variant(format!("HA{tag}"), vec![Pat::Var(format!("hq{tag}"), Ty::Int)]), Expr::new(Ty::Int, EK::Var(format!("hq{tag}")))), (Pat::Variant(format!("HB{tag}"), vec![]), int(0))] },
        ))],
        _ => vec![
          Stmt::Let { pat: Pat::Var(format!("hq{tag}"), hty.clone()), annot: None, init: opened() },
          wild(Expr::new(Ty::Int, EK::MethodCall { recv: Box::new(Expr::new(hty.clone(), EK::Var(format!("hq{tag}")))), method: "reveal".into(), targs: vec![], args: vec![] })),
        ],
      };
      let m = &mut p.modules[ui];
      let user = m.path.clone();
      let c = m.classes.iter_mut().find(|c| !c.is_interface && c.members.iter().any(|m| m.body.is_some()))?;
      let with_body: Vec<usize> = c.members.iter().enumerate().filter(|(_, m)| m.body.is_some()).map(|(i, _)| i).collect();
      let mem = &mut c.members[with_body[t.choose(with_body.len())]];
      let body = mem.body.take().unwrap();
      mem.body = Some(Expr::new(body.ty.clone(), EK::Block { stmts, last: Some(Box::new(body)) }));
      let site = format!("{}.{}/{}", c.name, mem.name, ["method-call", "field-read", "destructuring", "match", "method-call-on-variable"][variant]);
      return Some(Fault { kind, site, module: user });
    }
    "visibility:private-field" => {
      // a field read `x.f` on a class type from inside another class: make that field private
      let mut found: Option<(Vec<String>, Vec<String>, String, String)> = None; // (user module, def module, class, field)
      for m in &p.modules {
        for c in &m.classes {
          for mem in &c.members {
            if let Some(b) = &mem.body {
              let mut b2 = b.clone();
              walk_expr_mut(&mut b2, &mut |e| {
                if let EK::Field { obj, field } = &e.kind
                  && let Ty::Class(dm, dc, _) = &obj.ty
                  && !dm.is_empty()
                  && dm[0] != "std"
                  && (dc != &c.name || dm != &m.path)
                  && found.is_none()
                {
                  found = Some((m.path.clone(), dm.clone(), dc.clone(), field.clone()));
                }
              });
            }
          }
        }
      }
      let (user, def, class, field) = found?;
      let dm = p.modules.iter_mut().find(|m| m.path == def)?;
      let dc = dm.classes.iter_mut().find(|c| c.name == class)?;
      if let TypeDef::Struct(fs) = &mut dc.typedef {
        let f = fs.iter_mut().find(|(n, _, _)| n == &field)?;
        f.2 = false;
        return Some(Fault { kind, site: format!("{class}.{field}"), module: user });
      }
      return None;
    }
    "bound:violated-by-unbounded-type-parameter" => {
      // a new generic function with an *unbounded* type parameter V passes V to a bounded type parameter
      // of an existing function (explicitly, or by inference from arguments of type V)
      let mut cands: Vec<(usize, usize, usize)> = vec![];
      for (mi, m) in p.modules.iter().enumerate() {
        for (ci, c) in m.classes.iter().enumerate() {
          for (ki, mem) in c.members.iter().enumerate() {
            if !mem.is_method
              && !c.is_interface
              && c.tparams.is_empty()
              && mem.tparams.len() == 1
              && mem.tparams[0].bound.is_some()
              && mem.params.iter().any(|(_, t)| *t == Ty::TParam(mem.tparams[0].name.clone()))
              && mem.params.iter().all(|(_, t)| matches!(t, Ty::Int | Ty::Bool | Ty::Str) || *t == Ty::TParam(mem.tparams[0].name.clone()))
            {
              cands.push((mi, ci, ki));
            }
          }
        }
      }
      if cands.is_empty() {
        return None;
      }
      let (mi, ci, ki) = cands[t.choose(cands.len())];
      let path = p.modules[mi].path.clone();
      let cname = p.modules[mi].classes[ci].name.clone();
      let target = p.modules[mi].classes[ci].members[ki].clone();
      let u = target.tparams[0].name.clone();
      let v = Ty::TParam("V".into());
      let args: Vec<Expr> = target
        .params
        .iter()
        .map(|(_, ty)| match ty {
          Ty::Int => Expr::new(Ty::Int, EK::Int(1)),
          Ty::Bool => Expr::new(Ty::Bool, EK::Bool(true)),
          Ty::Str => Expr::new(Ty::Str, EK::Str("s".into())),
          _ => Expr::new(v.clone(), EK::Var("unboundedValue".into())),
        })
        .collect();
      let explicit = t.bool(1, 2);
      let ret = target.ret.subst(&[(u, v.clone())]);
      let call = Expr::new(ret, EK::StaticCall { module: path.clone(), class: cname.clone(), member: target.name.clone(), targs: if explicit { vec![v.clone()] } else { vec![] }, args });
      let body = Expr::new(Ty::Unit, EK::Block { stmts: vec![Stmt::Let { pat: Pat::Wild, annot: None, init: call }], last: None });
      p.modules[mi].classes[ci].members.push(Member { name: "faultUnboundedCaller".into(), is_method: false, is_public: true, tparams: vec![TParamDef { name: "V".into(), bound: None }], params: vec![("unboundedValue".into(), v)], ret: Ty::Unit, body: Some(body) });
      return Some(Fault { kind, site: format!("{cname}.{}/{}", target.name, if explicit { "explicit-type-argument" } else { "inferred-type-argument" }), module: path });
    }
    "bound:violated" => {
      // members with a bounded type parameter: (module, class, member, tparam index, indices of parameters typed by it)
      let mut bounded: Vec<(Vec<String>, String, String, usize, Vec<usize>)> = vec![];
      for m in &p.modules {
        for c in &m.classes {
          for mem in &c.members {
            for (ti, tp) in mem.tparams.iter().enumerate() {
              if tp.bound.is_some() && !mem.is_method {
                let idx: Vec<usize> = mem.params.iter().enumerate().filter(|(_, (_, t))| *t == Ty::TParam(tp.name.clone())).map(|(i, _)| i).collect();
                bounded.push((m.path.clone(), c.name.clone(), mem.name.clone(), ti, idx));
              }
            }
          }
        }
      }
      if bounded.is_empty() {
        return None;
      }
      for m in p.modules.iter_mut() {
        let path = m.path.clone();
        for c in m.classes.iter_mut() {
          for mem in c.members.iter_mut() {
            let Some(body) = mem.body.as_mut() else { continue };
            let mut done = None;
            walk_expr_mut(body, &mut |e| {
              if done.is_some() {
                return;
              }
              if let EK::StaticCall { module, class, member, targs, args } = &mut e.kind
                && let Some((_, _, _, ti, idx)) = bounded.iter().find(|(bm, bc, bn, _, _)| bm == module && bc == class && bn == member)
                && *ti < targs.len()
                && idx.iter().all(|i| *i < args.len())
              {
                targs[*ti] = Ty::Int;
                for i in idx {
                  args[*i] = Expr::new(Ty::Int, EK::Int(1));
                }
                done = Some(format!("{class}.{member}"));
              }
            });
            if let Some(site) = done {
              return Some(Fault { kind, site, module: path });
            }
          }
        }
      }
      return None;
    }
    "interface:several-members-missing" => {
      // the interface gains 2-4 members that no implementing class defines
      let implementer = p.modules.iter().find_map(|m| m.classes.iter().find(|c| !c.is_interface && c.implements.iter().any(|t| matches!(t, Ty::Class(_, n, _) if n == "Cmp"))).map(|c| (m.path.clone(), c.name.clone())))?;
      let n = 2 + t.choose(3);
      let iface = p.modules.iter_mut().flat_map(|m| m.classes.iter_mut()).find(|c| c.is_interface && c.name == "Cmp")?;
      for i in 0..n {
        // interfaces declare methods only
        let is_method = true;
        iface.members.push(Member { name: format!("{}{i}", ["extra", "more", "also", "other", "aMemberWithAVeryLongName", "yetAnotherRatherLongName"][t.choose(6)]), is_method, is_public: true, tparams: vec![], params: vec![], ret: Ty::Int, body: None });
      }
      return Some(Fault { kind, site: format!("{}+{n}", implementer.1), module: implementer.0 });
    }
    "match:struct-pattern-case-missing" => {
      // a struct with an enum-typed field, destructured by field name with a variant sub-pattern: a match
      // that lacks the arm of one variant, or a `let` whose pattern is refutable
      let mi = t.choose(p.modules.len());
      let path = p.modules[mi].path.clone();
      let shape_ty = Ty::Class(path.clone(), "FaultShape".into(), vec![]);
      let holder_ty = Ty::Class(path.clone(), "FaultHolder".into(), vec![]);
      let variants = ["FCircle", "FSquare", "FDot"];
      let shape = Class { name: "FaultShape".into(), is_interface: false, private: false, tparams: vec![], typedef: TypeDef::Enum(variants.iter().map(|v| (v.to_string(), vec![Ty::Int])).collect()), implements: vec![], members: vec![] };
      let scale_first = t.bool(1, 2);
      let mut fields = vec![("shape".to_string(), shape_ty.clone(), true), ("scale".to_string(), Ty::Int, true)];
      if scale_first {
        fields.reverse();
      }
      let arm = |v: &str, k: usize| -> (Pat, Expr) {
        let r = format!("fr{k}");
        let mut elems = vec![("shape".to_string(), Pat::Variant(v.to_string(), vec![Pat::Var(r.clone(), Ty::Int)])), ("scale".to_string(), Pat::Var("scale".into(), Ty::Int))];
        if k % 2 == 1 {
          elems.reverse();
        }
        (Pat::Struct(elems), Expr::new(Ty::Int, EK::Binary("+", Box::new(Expr::new(Ty::Int, EK::Var(r))), Box::new(Expr::new(Ty::Int, EK::Var("scale".into()))))))
      };
      let h = Expr::new(holder_ty.clone(), EK::Var("h".into()));
      let flavour = t.choose(3);
      let body = match flavour {
        // one variant of three has no arm
        0 => {
          let missing = t.choose(3);
          let arms: Vec<(Pat, Expr)> = (0..3).filter(|i| *i != missing).map(|i| arm(variants[i], i)).collect();
          Expr::new(Ty::Int, EK::Match { scrut: Box::new(h), arms })
        }
        // a single arm
        1 => Expr::new(Ty::Int, EK::Match { scrut: Box::new(h), arms: vec![arm(variants[t.choose(3)], 0)] }),
        // refutable let
        _ => {
          let (pat, e) = arm(variants[t.choose(3)], t.choose(2));
          Expr::new(Ty::Int, EK::Block { stmts: vec![Stmt::Let { pat, annot: None, init: h }], last: Some(Box::new(e)) })
        }
      };
      let holder = Class {
        name: "FaultHolder".into(),
        is_interface: false,
        private: false,
        tparams: vec![],
        typedef: TypeDef::Struct(fields),
        implements: vec![],
        members: vec![Member { name: "area".into(), is_method: false, is_public: true, tparams: vec![], params: vec![("h".into(), holder_ty)], ret: Ty::Int, body: Some(body) }],
      };
      p.modules[mi].classes.push(shape);
      p.modules[mi].classes.push(holder);
      return Some(Fault { kind, site: format!("FaultHolder.area/{}", ["match-one-arm-missing", "match-single-arm", "refutable-let"][flavour]), module: path });
    }
    "interface:second-instantiation-unsatisfied" => {
      // a class that implements Cmp<Self> additionally claims Cmp<Str> / Cmp<int> (directly, or through a
      // new interface that extends it): its only `cmp` cannot have both parameter types
      let other = if t.bool(1, 2) { Ty::Str } else { Ty::Int };
      let (ipath, _) = p.modules.iter().find_map(|m| m.classes.iter().find(|c| c.is_interface && c.name == "Cmp").map(|c| (m.path.clone(), c.name.clone())))?;
      let through = t.bool(1, 2);
      let first = t.bool(1, 3);
      let mut done: Option<(Vec<String>, String)> = None;
      for m in p.modules.iter_mut() {
        // the intermediate interface is declared next to Cmp; only classes of that module use it (no import needed)
        if through && m.path != ipath {
          continue;
        }
        let path = m.path.clone();
        if let Some(c) = m.classes.iter_mut().find(|c| !c.is_interface && c.implements.iter().any(|t| matches!(t, Ty::Class(_, n, _) if n == "Cmp")) && c.members.iter().any(|m| m.name == "cmp")) {
          let claim = if through { Ty::Class(ipath.clone(), "CmpWithAnotherArgument".into(), vec![]) } else { Ty::Class(ipath.clone(), "Cmp".into(), vec![other.clone()]) };
          if first {
            c.implements.insert(0, claim);
          } else {
            c.implements.push(claim);
          }
          done = Some((path, c.name.clone()));
          break;
        }
      }
      let (path, cname) = done?;
      if through {
        let m = p.modules.iter_mut().find(|m| m.path == ipath)?;
        m.classes.push(Class { name: "CmpWithAnotherArgument".into(), is_interface: true, private: false, tparams: vec![], typedef: TypeDef::None, implements: vec![Ty::Class(ipath.clone(), "Cmp".into(), vec![other])], members: vec![] });
      }
      return Some(Fault { kind, site: format!("{cname}{}{}", if through { "/through-interface" } else { "/direct" }, if first { "/listed-first" } else { "/listed-last" }), module: path });
    }
    "interface:member-missing" | "interface:member-mistyped" => {
      for m in p.modules.iter_mut() {
        let path = m.path.clone();
        for c in m.classes.iter_mut() {
          if !c.implements.is_empty()
            && let Some(pos) = c.members.iter().position(|m| m.name == "cmp")
          {
            if kind == "interface:member-missing" {
              // the method may be used elsewhere; deleting it is an error either way (missing member)
              c.members.remove(pos);
            } else {
              let mem = &mut c.members[pos];
              mem.ret = Ty::Str;
              mem.body = Some(Expr::new(Ty::Str, EK::Str("mistyped".into())));
            }
            return Some(Fault { kind, site: c.name.clone(), module: path });
          }
        }
      }
      return None;
    }
    _ => {}
  }
  // expression-level faults: count candidate sites, pick one, apply
  let mut sites: Vec<(usize, usize, usize)> = vec![]; // (module, class, member)
  for (mi, m) in p.modules.iter().enumerate() {
    for (ci, c) in m.classes.iter().enumerate() {
      for (ki, mem) in c.members.iter().enumerate() {
        if mem.body.is_some() {
          sites.push((mi, ci, ki));
        }
      }
    }
  }
  if sites.is_empty() {
    return None;
  }
  // try members in a tape-chosen rotation until one has a site
  let start = t.choose(sites.len());
  for off in 0..sites.len() {
    let (mi, ci, ki) = sites[(start + off) % sites.len()];
    let path = p.modules[mi].path.clone();
    let cname = p.modules[mi].classes[ci].name.clone();
    let mem = &mut p.modules[mi].classes[ci].members[ki];
    let mname = mem.name.clone();
    if kind == "wrong-type:return-expression" {
      if !concrete(&mem.ret) {
        continue;
      }
      let w = wrong_typed(&mem.ret, t);
      mem.body = Some(w);
      return Some(Fault { kind, site: format!("{cname}.{mname}:body"), module: path });
    }
    let body = mem.body.as_mut().unwrap();
    let mut count = 0usize;
    let mut probe = body.clone();
    walk_expr_mut(&mut probe, &mut |e| {
      if is_site(kind, e) {
        count += 1;
      }
    });
    if count == 0 {
      continue;
    }
    let target = t.choose(count);
    let mut seen = 0usize;
    let mut applied: Option<String> = None;
    let pick = t.raw();
    walk_expr_mut(body, &mut |e| {
      if applied.is_none() && is_site(kind, e) {
        if seen == target {
          applied = apply(kind, e, pick);
        }
        seen += 1;
      }
    });
    if let Some(site) = applied {
      if let Some(name) = site.split(":twin-of:").nth(1) {
        // module TwinModule declares its own class `name` and a factory whose result type names it
        let twin_ty = Ty::Class(vec![TWIN_MODULE.into()], name.to_string(), vec![]);
        let twin = Class {
          name: name.to_string(),
          is_interface: false,
          private: false,
          tparams: vec![],
          typedef: TypeDef::Struct(vec![("twinField".into(), Ty::Int, true)]),
          implements: vec![],
          members: vec![Member { name: "make".into(), is_method: false, is_public: true, tparams: vec![], params: vec![], ret: twin_ty.clone(), body: Some(Expr::new(twin_ty.clone(), EK::StaticCall { module: vec![], class: name.to_string(), member: "init".into(), targs: vec![], args: vec![Expr::new(Ty::Int, EK::Int(0))] })) }],
        };
        let factory = Class {
          name: format!("{name}TwinFactory"),
          is_interface: false,
          private: false,
          tparams: vec![],
          typedef: TypeDef::None,
          implements: vec![],
          members: vec![Member { name: "make".into(), is_method: false, is_public: true, tparams: vec![], params: vec![], ret: twin_ty.clone(), body: Some(Expr::new(twin_ty, EK::StaticCall { module: vec![], class: name.to_string(), member: "make".into(), targs: vec![], args: vec![] })) }],
        };
        p.modules.push(ModuleIr { path: vec![TWIN_MODULE.into()], classes: vec![twin, factory] });
      }
      return Some(Fault { kind, site: format!("{cname}.{mname}:{site}"), module: path });
    }
  }
  None
}

const TWIN_MODULE: &str = "TwinModule";

/// an argument whose type is a non-generic user class (a same-named class of another module can stand in for it)
fn twin_candidate(a: &Expr) -> bool {
  matches!(&a.ty, Ty::Class(m, n, targs) if targs.is_empty() && m.first().map(|x| x.as_str()) != Some("std") && !m.is_empty() && n != "Cmp")
}

fn is_site(kind: &str, e: &Expr) -> bool {
  match kind {
    "wrong-type:binary-operand" => matches!(&e.kind, EK::Binary(op, a, b) if *op != "==" && *op != "!=" && concrete(&a.ty) && concrete(&b.ty)),
    "wrong-type:if-condition" => matches!(&e.kind, EK::If { .. }),
    "wrong-type:unary-operand" => matches!(&e.kind, EK::Unary(..)),
    "wrong-type:call-argument" | "arity:argument-removed" => match &e.kind {
      // calls with inferred type arguments (Hof.*) give no guarantee: a different argument type may simply solve differently
      EK::StaticCall { args, class, .. } => !args.is_empty() && args.iter().all(|a| concrete(&a.ty)) && class != "Process" && class != "Hof",
      EK::MethodCall { args, method, .. } => !args.is_empty() && args.iter().all(|a| concrete(&a.ty)) && method != "push" && method != "set",
      _ => false,
    },
    "wrong-type:same-named-class-of-another-module" => match &e.kind {
      EK::StaticCall { args, class, .. } => class != "Process" && class != "Hof" && args.iter().any(twin_candidate),
      EK::MethodCall { args, method, .. } => method != "push" && method != "set" && args.iter().any(twin_candidate),
      _ => false,
    },
    "arity:argument-added" => matches!(&e.kind, EK::StaticCall { .. } | EK::MethodCall { .. }),
    "arity:type-argument" => matches!(&e.kind, EK::StaticCall { class, .. } if class != "Process"),
    "wrong-type:annotated-let" => matches!(&e.kind, EK::Block { stmts, .. } if stmts.iter().any(|s| matches!(s, Stmt::Let { annot: Some(a), .. } if concrete(a)))),
    "unresolved:variable" => matches!(&e.kind, EK::Var(_)),
    "wrong-type:hinted-lambda-body" => matches!(&e.kind, EK::Lambda { annotated: false, body, .. } if concrete(&body.ty)),
    "unresolved:class" | "unresolved:member" => matches!(&e.kind, EK::StaticCall { module, .. } if !module.is_empty()),
    "literal:out-of-range" => matches!(&e.kind, EK::Int(_)),
    "match:arm-deleted" => match &e.kind {
      EK::Match { arms, .. } => arms.len() >= 2 && deletable_arm(arms).is_some(),
      _ => false,
    },
    _ => false,
  }
}

/// an arm whose variant is covered by no other arm (no wildcard / variable / or-pattern mention)
fn deletable_arm(arms: &[(Pat, Expr)]) -> Option<usize> {
  fn tags(p: &Pat, out: &mut Vec<String>, catch_all: &mut bool) {
    match p {
      Pat::Variant(t, _) => out.push(t.clone()),
      Pat::Or(ps) => ps.iter().for_each(|x| tags(x, out, catch_all)),
      Pat::Wild | Pat::Var(..) => *catch_all = true,
      _ => {}
    }
  }
  for (i, (p, _)) in arms.iter().enumerate() {
    let Pat::Variant(tag, _) = p else { continue };
    let mut others = vec![];
    let mut catch_all = false;
    for (j, (q, _)) in arms.iter().enumerate() {
      if i != j {
        tags(q, &mut others, &mut catch_all);
      }
    }
    if !catch_all && !others.contains(tag) {
      return Some(i);
    }
  }
  None
}

fn apply(kind: &str, e: &mut Expr, pick: u32) -> Option<String> {
  let mut t = Tape::new(vec![pick, pick.rotate_left(7), pick.rotate_left(13), pick.rotate_left(19)]);
  match kind {
    "wrong-type:binary-operand" => {
      if let EK::Binary(op, a, b) = &mut e.kind {
        let expected = match *op {
          "&&" | "||" => Ty::Bool,
          "::" => Ty::Str,
          _ => Ty::Int,
        };
        let side = t.choose(2);
        let mut w = wrong_typed(&expected, &mut t);
        // keep syntax unambiguous
        if matches!(w.kind, EK::Lambda { .. }) {
          w = Expr::new(w.ty.clone(), EK::Paren(Box::new(w)));
        }
        if side == 0 { **a = w } else { **b = w }
        return Some(format!("operand-of:{op}"));
      }
      None
    }
    "wrong-type:if-condition" => {
      if let EK::If { cond, .. } = &mut e.kind {
        **cond = wrong_typed(&Ty::Bool, &mut t);
        if matches!(cond.kind, EK::Lambda { .. } | EK::Block { .. }) {
          **cond = Expr::new(Ty::Int, EK::Int(1));
        }
        return Some("if-condition".into());
      }
      None
    }
    "wrong-type:unary-operand" => {
      if let EK::Unary(op, x) = &mut e.kind {
        let expected = if *op == "!" { Ty::Bool } else { Ty::Int };
        let mut w = wrong_typed(&expected, &mut t);
        if matches!(w.kind, EK::Lambda { .. }) {
          w = Expr::new(Ty::Str, EK::Str("wrong".into()));
        }
        **x = w;
        return Some(format!("operand-of-unary:{op}"));
      }
      None
    }
    "wrong-type:call-argument" => {
      let args = match &mut e.kind {
        EK::StaticCall { args, .. } | EK::MethodCall { args, .. } => args,
        _ => return None,
      };
      let i = t.choose(args.len());
      let ty = args[i].ty.clone();
      args[i] = wrong_typed(&ty, &mut t);
      Some(format!("argument#{i}"))
    }
    "wrong-type:same-named-class-of-another-module" => {
      let args = match &mut e.kind {
        EK::StaticCall { args, .. } | EK::MethodCall { args, .. } => args,
        _ => return None,
      };
      let cands: Vec<usize> = (0..args.len()).filter(|i| twin_candidate(&args[*i])).collect();
      let i = cands[t.choose(cands.len())];
      let Ty::Class(_, name, _) = args[i].ty.clone() else { return None };
      // a value of the class `name` declared in module TwinModule, obtained without importing that class
      let twin_ty = Ty::Class(vec![TWIN_MODULE.into()], name.clone(), vec![]);
      args[i] = Expr::new(twin_ty, EK::StaticCall { module: vec![TWIN_MODULE.into()], class: format!("{name}TwinFactory"), member: "make".into(), targs: vec![], args: vec![] });
      Some(format!("argument#{i}:twin-of:{name}"))
    }
    "arity:argument-removed" => {
      let args = match &mut e.kind {
        EK::StaticCall { args, .. } | EK::MethodCall { args, .. } => args,
        _ => return None,
      };
      args.pop();
      Some("call".into())
    }
    "arity:argument-added" => {
      let args = match &mut e.kind {
        EK::StaticCall { args, .. } | EK::MethodCall { args, .. } => args,
        _ => return None,
      };
      args.push(Expr::new(Ty::Int, EK::Int(0)));
      Some("call".into())
    }
    "arity:type-argument" => {
      if let EK::StaticCall { targs, .. } = &mut e.kind {
        if targs.is_empty() {
          // the callee may be generic with inferred type arguments (at most two parameters): three never fit
          targs.push(Ty::Int);
          targs.push(Ty::Int);
          targs.push(Ty::Int);
          return Some("type-arguments-added".into());
        }
        targs.pop();
        if targs.is_empty() {
          // dropping all explicit type arguments may still be inferable: add two instead
          targs.push(Ty::Int);
          targs.push(Ty::Int);
          targs.push(Ty::Int);
          return Some("type-arguments-too-many".into());
        }
        return Some("type-argument-removed".into());
      }
      None
    }
    "wrong-type:annotated-let" => {
      if let EK::Block { stmts, .. } = &mut e.kind {
        for s in stmts.iter_mut() {
          if let Stmt::Let { annot: Some(a), init, .. } = s
            && concrete(a)
          {
            *init = wrong_typed(a, &mut t);
            return Some("let-initialiser".into());
          }
        }
      }
      None
    }
    "wrong-type:hinted-lambda-body" => {
      if let EK::Lambda { body, .. } = &mut e.kind {
        let mut w = wrong_typed(&body.ty, &mut t);
        if matches!(w.kind, EK::Lambda { .. }) {
          w = Expr::new(Ty::Tuple(vec![Ty::Int, Ty::Int]), EK::Tuple(vec![Expr::new(Ty::Int, EK::Int(1)), Expr::new(Ty::Int, EK::Int(2))]));
          if w.ty == body.ty {
            w = Expr::new(Ty::Bool, EK::Bool(true));
          }
        }
        **body = w;
        return Some("hinted-lambda-body".into());
      }
      None
    }
    "unresolved:variable" => {
      e.kind = EK::Var("zzUnboundName".into());
      Some("variable".into())
    }
    "unresolved:class" => {
      if let EK::StaticCall { class, module, .. } = &mut e.kind {
        *class = "NoSuchClassAnywhere".into();
        // keep it in the current module so that no import is generated for it
        *module = vec![];
        return Some("class".into());
      }
      None
    }
    "unresolved:member" => {
      if let EK::StaticCall { member, .. } = &mut e.kind {
        *member = "noSuchMember".into();
        return Some("member".into());
      }
      None
    }
    "literal:out-of-range" => {
      let v = ["2147483648", "2147483649", "4294967296", "99999999999999999999"][t.choose(4)];
      e.kind = EK::Var(v.to_string()); // rendered verbatim
      Some(format!("literal:{v}"))
    }
    "match:arm-deleted" => {
      if let EK::Match { arms, .. } = &mut e.kind {
        let i = deletable_arm(arms)?;
        arms.remove(i);
        return Some("match".into());
      }
      None
    }
    _ => None,
  }
}
