#!/bin/bash
# Developer tool: confirm a seeded change in its scratch worktree:
#   patch applies, workspace tests pass with it, the demo fails with it and passes without it.
# usage: tools/confirmseed.sh <worktree-with-seed-dir>   (writes <worktree>/seed/confirm.log)
W="$1"; cd "$W" || exit 2
export CARGO_NET_OFFLINE=true
LOG="$W/seed/confirm.log"; : > "$LOG"
git checkout -q -- . 2>/dev/null
git apply --check seed/patch.diff || { echo "PATCH-DOES-NOT-APPLY" | tee -a "$LOG"; exit 1; }
git apply seed/patch.diff
cargo test --workspace --offline > seed/confirm-tests.log 2>&1
PASS=$(grep -E "^test result: ok" seed/confirm-tests.log | sed -E 's/.* ([0-9]+) passed.*/\1/' | paste -sd+ | bc)
FAIL=$(grep -cE "^test result: FAILED|^error" seed/confirm-tests.log)
echo "tests-with-patch: passed=$PASS failed_markers=$FAIL" | tee -a "$LOG"
bash seed/demo/run.sh > seed/confirm-demo-with.log 2>&1; echo "demo-with-patch exit=$?" | tee -a "$LOG"
git apply -R seed/patch.diff
bash seed/demo/run.sh > seed/confirm-demo-without.log 2>&1; echo "demo-without-patch exit=$?" | tee -a "$LOG"
git status --short | grep -v "^??" | head -3 | tee -a "$LOG"
rm -rf "$W/target"
