pub mod engine;
pub mod generators;
pub mod model;
pub mod props;
