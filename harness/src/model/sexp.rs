//! Minimal S-expression reader for canon dumps, and a root-cause "shape" of the first
//! structural difference between two dumps (used as finding signature).

#[derive(Clone, Debug, PartialEq)]
pub enum S {
  Atom(String),
  List(Vec<S>),
}

pub fn parse_all(src: &str) -> Vec<S> {
  let b: Vec<char> = src.chars().collect();
  let mut i = 0;
  let mut out = vec![];
  while let Some(s) = read(&b, &mut i) {
    out.push(s);
  }
  out
}

fn read(b: &[char], i: &mut usize) -> Option<S> {
  while *i < b.len() && b[*i].is_whitespace() {
    *i += 1;
  }
  if *i >= b.len() {
    return None;
  }
  match b[*i] {
    '(' | '[' => {
      let close = if b[*i] == '(' { ')' } else { ']' };
      *i += 1;
      let mut items = vec![];
      loop {
        while *i < b.len() && b[*i].is_whitespace() {
          *i += 1;
        }
        if *i >= b.len() {
          break;
        }
        if b[*i] == close {
          *i += 1;
          break;
        }
        match read(b, i) {
          Some(s) => items.push(s),
          None => break,
        }
      }
      Some(S::List(items))
    }
    ')' | ']' => {
      *i += 1;
      Some(S::Atom(")".into()))
    }
    '"' => {
      let mut s = String::from("\"");
      *i += 1;
      while *i < b.len() {
        let c = b[*i];
        s.push(c);
        *i += 1;
        if c == '\\' && *i < b.len() {
          s.push(b[*i]);
          *i += 1;
          continue;
        }
        if c == '"' {
          break;
        }
      }
      Some(S::Atom(s))
    }
    _ => {
      let mut s = String::new();
      while *i < b.len() && !b[*i].is_whitespace() && !matches!(b[*i], '(' | ')' | '[' | ']') {
        s.push(b[*i]);
        *i += 1;
      }
      Some(S::Atom(s))
    }
  }
}

const HEADS: &[&str] = &[
  "class", "interface", "def", "struct", "enum", "extends", "tparams", "function", "method", "private", "tuple", "object", "variant", "bind", "_", "or", "block", "let", "stmt", "final",
  "if", "str", "var", "cls", ".", "call", "match", "lambda", "as", "->", ":", "imports", "!", "-", "*", "/", "%", "+", "::", "<", "<=", ">", ">=", "==", "!=", "&&", "||", "true", "false",
];

fn head(s: &S) -> String {
  match s {
    S::Atom(a) => {
      if HEADS.contains(&a.as_str()) {
        a.clone()
      } else if a.starts_with('"') {
        "STR".into()
      } else if a.parse::<i64>().is_ok() {
        "#".into()
      } else {
        "_".into()
      }
    }
    S::List(items) => match items.first() {
      Some(S::Atom(a)) if HEADS.contains(&a.as_str()) => a.clone(),
      Some(_) => "()".into(),
      None => "()".into(),
    },
  }
}

fn shape(s: &S) -> String {
  match s {
    S::Atom(_) => head(s),
    S::List(items) => {
      let kids: Vec<String> = items.iter().skip(1).map(head).collect();
      format!("{}({})", head(s), kids.join(" "))
    }
  }
}

/// Returns (shape before => shape after, rendered subtrees) of the innermost differing pair.
pub fn diff_shape(a: &S, b: &S) -> Option<(String, String, String)> {
  if a == b {
    return None;
  }
  if let (S::List(x), S::List(y)) = (a, b)
    && x.len() == y.len()
    && head(a) == head(b)
  {
    let diffs: Vec<usize> = (0..x.len()).filter(|i| x[*i] != y[*i]).collect();
    if diffs.len() == 1 {
      return diff_shape(&x[diffs[0]], &y[diffs[0]]);
    }
  }
  Some((format!("{}=>{}", shape(a), shape(b)), render(a), render(b)))
}

pub fn render(s: &S) -> String {
  match s {
    S::Atom(a) => a.clone(),
    S::List(items) => format!("({})", items.iter().map(render).collect::<Vec<_>>().join(" ")),
  }
}

pub fn diff_dumps(a: &str, b: &str) -> (String, String) {
  let x = S::List(parse_all(a));
  let y = S::List(parse_all(b));
  match diff_shape(&x, &y) {
    Some((sig, ra, rb)) => {
      let cut = |s: String| if s.chars().count() > 400 { s.chars().take(400).collect::<String>() + "…" } else { s };
      (sig, format!("before: {}\nafter:  {}", cut(ra), cut(rb)))
    }
    None => ("identical".into(), String::new()),
  }
}

const REASSOC_OPS: &[&str] = &["*", "+", "::", "<", "<=", ">", ">=", "==", "!=", "&&", "||"];

/// Left-nested normal form for same-operator chains: (op a (op b c)) => (op (op a b) c).
/// The formatter documents dropping the parentheses of `1 + (1 + 1)`.
pub fn reassoc_normal_form(s: &S) -> S {
  match s {
    S::Atom(_) => s.clone(),
    S::List(items) => {
      let mut items: Vec<S> = items.iter().map(reassoc_normal_form).collect();
      loop {
        if items.len() == 3
          && let S::Atom(op) = &items[0]
          && REASSOC_OPS.contains(&op.as_str())
          && let S::List(r) = &items[2]
          && r.len() == 3
          && r[0] == items[0]
        {
          let op = items[0].clone();
          let a = items[1].clone();
          let (b, c) = (r[1].clone(), r[2].clone());
          let left = reassoc_normal_form(&S::List(vec![op.clone(), a, b]));
          items = vec![op, left, c];
          continue;
        }
        break;
      }
      S::List(items)
    }
  }
}

/// (reassociation happened, remaining difference signature + detail if any)
pub fn diff_dumps_modulo_reassoc(a: &str, b: &str) -> (bool, Option<(String, String)>) {
  let x = S::List(parse_all(a));
  let y = S::List(parse_all(b));
  if x == y {
    return (false, None);
  }
  let nx = reassoc_normal_form(&x);
  let ny = reassoc_normal_form(&y);
  let reassoc = nx != x || ny != y;
  if nx == ny {
    return (true, None);
  }
  match diff_shape(&nx, &ny) {
    Some((sig, ra, rb)) => {
      let cut = |s: String| if s.chars().count() > 400 { s.chars().take(400).collect::<String>() + "…" } else { s };
      (reassoc, Some((sig, format!("before: {}\nafter:  {}", cut(ra), cut(rb)))))
    }
    None => (reassoc, None),
  }
}
