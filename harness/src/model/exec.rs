//! Compile a multi-module program with the real pipeline and execute both emitted artefacts.

use crate::engine::guard;
use crate::engine::node::{Exec, Node};
use samlang_heap::Heap;
use std::collections::HashMap;
use std::time::Duration;

/// the loader the compiler emits next to the module (same file the compiler embeds)
const LOADER: &str = include_str!("/repo/crates/samlang-compiler/src/loader.js");

pub struct Compiled {
  pub ts_code: String,
  pub wasm: Vec<u8>,
  pub loader: String,
  pub main: String,
  pub wat: String,
}

pub enum CompileOutcome {
  Ok(Compiled),
  /// the front end rejected the program: rendered diagnostics
  Rejected(String),
  Panicked((String, String)),
}

/// `mods`: user modules; the standard library (incl. std/*.sam files not built into the parser) is added.
pub fn compile(mods: &[(Vec<String>, String)], entry: &[String]) -> CompileOutcome {
  compile_in_order(mods, entry, 0)
}

/// `order` permutes the order in which the modules (std and user) are registered with the heap:
/// rotation by order/2, reversed when odd (0 = std first, then the user modules as given)
pub fn compile_in_order(mods: &[(Vec<String>, String)], entry: &[String], order: usize) -> CompileOutcome {
  compile_in_order_with_entries(mods, entry, &[], order)
}

/// like `compile_in_order`, with further entry modules (each has its own `Main.main`) handed to the
/// compiler besides the one whose artefacts are returned
pub fn compile_in_order_with_entries(mods: &[(Vec<String>, String)], entry: &[String], extra_entries: &[Vec<String>], order: usize) -> CompileOutcome {
  let mut heap = Heap::new();
  let mut handles = HashMap::new();
  let user_texts: Vec<&str> = mods.iter().map(|(_, t)| t.as_str()).collect();
  let mut all: Vec<(Vec<String>, String)> = crate::model::front::needed_std(&mut heap, &user_texts);
  all.extend(mods.iter().cloned());
  if !all.is_empty() {
    let k = (order / 2) % all.len();
    all.rotate_left(k);
    if order % 2 == 1 {
      all.reverse();
    }
  }
  for (name, text) in all {
    let mr = heap.alloc_module_reference_from_string_vec(name);
    handles.insert(mr, text);
  }
  let entry_mr = heap.alloc_module_reference_from_string_vec(entry.to_vec());
  let entry_name = entry.join(".");
  let mut entries = vec![entry_mr];
  for e in extra_entries {
    entries.push(heap.alloc_module_reference_from_string_vec(e.clone()));
  }
  if order % 2 == 1 {
    entries.reverse();
  }
  match guard(|| samlang_compiler::compile_sources(&mut heap, handles, entries, false)) {
    Err(e) => CompileOutcome::Panicked(e),
    Ok(Err(msg)) => CompileOutcome::Rejected(msg),
    Ok(Ok(res)) => {
      let ts_code = res.text_code_results.get(&format!("{entry_name}.ts")).cloned().unwrap_or_default();
      let wasm_js = res.text_code_results.get(&format!("{entry_name}.wasm.js")).cloned().unwrap_or_default();
      let loader = res.text_code_results.get("__samlang_loader__.js").cloned().unwrap_or_default();
      let wat = res.text_code_results.get("__all__.wat").cloned().unwrap_or_default();
      let main = wasm_js.rsplit("(binary).").next().unwrap_or("").split('(').next().unwrap_or("").to_string();
      CompileOutcome::Ok(Compiled { ts_code, wasm: res.wasm_file, loader, main, wat })
    }
  }
}

/// what happens between MIR generation and LIR lowering
#[derive(Clone, Debug, PartialEq)]
pub enum Plan {
  /// no optimizer at all
  Unoptimized,
  /// optimize_sources with [lvn, cse, loop, inlining, scalar replacement]
  Config([bool; 5]),
  /// the named passes, each applied once to the whole program, in order (cfg(samlang_verif) hook)
  Passes(Vec<String>),
}

impl Plan {
  pub fn describe(&self) -> String {
    match self {
      Plan::Unoptimized => "unoptimized".into(),
      Plan::Config(c) => format!("config[lvn={},cse={},loop={},inline={},sr={}]", c[0] as u8, c[1] as u8, c[2] as u8, c[3] as u8, c[4] as u8),
      Plan::Passes(p) => format!("passes[{}]", p.join(" > ")),
    }
  }
}

/// the compiler's pipeline (as in samlang_compiler::compile_sources) with a chosen optimization plan
pub fn compile_with_plan(mods: &[(Vec<String>, String)], entry: &[String], plan: &Plan) -> CompileOutcome {
  let mut heap = Heap::new();
  let user_texts: Vec<&str> = mods.iter().map(|(_, t)| t.as_str()).collect();
  let mut all: Vec<(Vec<String>, String)> = crate::model::front::needed_std(&mut heap, &user_texts);
  all.extend(mods.iter().cloned());
  let r = guard(|| {
    let mut error_set = samlang_errors::ErrorSet::new();
    let mut parsed = HashMap::new();
    let mut handles = HashMap::new();
    for (name, text) in &all {
      let mr = heap.alloc_module_reference_from_string_vec(name.clone());
      parsed.insert(mr, samlang_parser::parse_source_module_from_text(text, mr, &mut heap, &mut error_set));
      handles.insert(mr, text.clone());
    }
    let entry_mr = heap.alloc_module_reference_from_string_vec(entry.to_vec());
    let checked = samlang_checker::type_check_sources(&parsed, &mut error_set).0;
    if error_set.has_errors() {
      return Err(error_set.pretty_print_error_messages(&heap, &handles));
    }
    let mir = samlang_compiler::compile_sources_to_mir(&mut heap, &checked);
    let mir = match plan {
      Plan::Unoptimized => mir,
      Plan::Config(c) => samlang_optimization::optimize_sources(
        &mut heap,
        mir,
        &samlang_optimization::OptimizationConfiguration {
          does_perform_local_value_numbering: c[0],
          does_perform_common_sub_expression_elimination: c[1],
          does_perform_loop_optimization: c[2],
          does_perform_inlining: c[3],
          does_perform_scalar_replacement: c[4],
        },
      ),
      Plan::Passes(ps) => {
        let mut m = mir;
        for p in ps {
          m = samlang_optimization::verif_hooks::run_pass(&mut heap, m, p);
        }
        m
      }
    };
    if std::env::var("VERIF_DUMP_MIR").is_ok() {
      eprintln!("{}", mir.debug_print(&heap));
    }
    let mut lir = samlang_compiler::compile_mir_to_lir(&mut heap, mir);
    let common_ts = lir.pretty_print(&heap);
    let mut main = String::new();
    samlang_ast::mir::FunctionName { type_name: lir.symbol_table.create_main_type_name(entry_mr), fn_name: samlang_heap::PStr::MAIN_FN }.write_encoded(&mut main, &heap, &lir.symbol_table);
    let ts_code = format!("{common_ts}\n{main}();\n");
    let (wat, wasm) = samlang_compiler::compile_lir_to_wasm(&mut heap, lir);
    Ok(Compiled { ts_code, wasm, loader: LOADER.to_string(), main, wat })
  });
  match r {
    Err(e) => CompileOutcome::Panicked(e),
    Ok(Err(msg)) => CompileOutcome::Rejected(msg),
    Ok(Ok(c)) => CompileOutcome::Ok(c),
  }
}

pub fn validate_wasm(bytes: &[u8]) -> Result<(), String> {
  let mut v = wasmparser::Validator::new_with_features(wasmparser::WasmFeatures::all());
  v.validate_all(bytes).map(|_| ()).map_err(|e| e.to_string())
}

pub fn run_both(node: &mut Node, c: &Compiled, timeout: Duration) -> (Exec, Exec) {
  let w = node.run_wasm(&c.wasm, &c.loader, &c.main, timeout);
  let t = node.run_ts(&c.ts_code, timeout);
  (w, t)
}
